#!/bin/sh
# Confirm a seeded change in a scratch worktree: demo passes clean / fails patched, package imports, full suite passes with it.
# usage: seed_confirm.sh <dir under /verif/seeded containing patch.diff and demo.py> [pytest -n procs]
D=$1; N=${2:-6}
ID=$(basename $D | cut -d_ -f1)
WT=/tmp/mut/$ID      # the demos assert that pydra is imported from the worktree path their author used
git -C /repo worktree remove --force $WT 2>/dev/null; rm -rf $WT
git -C /repo worktree add -q --detach $WT HEAD || exit 2
cp /venv/lib/python3.12/site-packages/pydra/utils/_version.py $WT/pydra/utils/_version.py
cp /repo/pydra/engine/tests/data_tests/test.nii.gz $WT/pydra/engine/tests/data_tests/ 2>/dev/null
cd $WT
cp $D/demo.py $WT/demo_seed.py     # some demos check that pydra is imported from next to the demo file
cp $D/demo.py $WT/demo_A.py; cp $D/demo.py $WT/demo_B.py   # ... and some name their own module (worker processes import it)
run_demo() { (cd $WT && timeout 300 env PYTHONPATH=$WT /venv/bin/python $WT/demo_seed.py >/tmp/demo_$$.log 2>&1; echo $?); }
clean=$(run_demo)
if ! git apply --3way $D/patch.diff 2>/tmp/apply_$$.log; then echo "APPLY-FAILED $(cat /tmp/apply_$$.log | head -3)"; git -C /repo worktree remove --force $WT; exit 3; fi
git reset -q
patched=$(run_demo)
imp=$(cd $WT && PYTHONPATH=$WT /venv/bin/python -c "import pydra.engine.submitter, pydra.compose.shell, pydra.utils.hash; print('ok')" 2>&1 | tail -1)
echo "demo clean=$clean patched=$patched import=$imp"
if [ "$3" != "nosuite" ]; then
  env -u NIPYPE_PYDRA_VERIF PYTHONPATH=$WT /venv/bin/python -m pytest -ra -q -p no:cacheprovider --timeout=900 --continue-on-collection-errors --junitxml=/tmp/seed_$$.xml -n $N >/tmp/seed_$$.log 2>&1
  /venv/bin/python - /tmp/seed_$$.xml <<'P'
import json, sys, xml.etree.ElementTree as ET
base = json.load(open('/root/.vp/BASELINE.json')); want = set(base['stable_pass']); got = {}
for tc in ET.parse(sys.argv[1]).getroot().iter('testcase'):
    name = tc.get('classname') + '::' + tc.get('name')
    bad = any(ch.tag in ('failure', 'error') for ch in tc)
    got[name] = 'fail' if bad else ('skip' if any(ch.tag == 'skipped' for ch in tc) else 'pass')
missing = sorted(n for n in want if got.get(n) != 'pass')
print('suite: stable_pass', len(want), 'passing with the change', len(want) - len(missing), 'not passing:', missing[:8])
P
fi
echo "worktree kept at $WT (remove with: git -C /repo worktree remove --force $WT)"
