#!/bin/sh
# Build the overlay venv used by every check (offline, idempotent).
set -e
cd "$(dirname "$0")"
V=/verif/.venv
if [ -x "$V/bin/python" ] && "$V/bin/python" -c "import crosshair, z3, pydra" 2>/dev/null; then
  exit 0
fi
(
  flock 9
  if [ -x "$V/bin/python" ] && "$V/bin/python" -c "import crosshair, z3, pydra" 2>/dev/null; then exit 0; fi
  rm -rf "$V"
  /venv/bin/python -m venv "$V"
  SP=$("$V/bin/python" -c "import sysconfig; print(sysconfig.get_paths()['purelib'])")
  printf "import site; site.addsitedir('/venv/lib/python3.12/site-packages')\n" > "$SP/zz_overlay.pth"
  PIP_NO_INDEX=1 "$V/bin/pip" install -q --no-index --find-links /opt/veriftools/wheels crosshair-tool z3-solver >/dev/null
  "$V/bin/python" -c "import crosshair, z3, pydra"
) 9>/verif/.venv.lock
