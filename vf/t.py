"""In-harness toolkit: counters, failure details, repo-origin assertion."""
import sys

COUNTS = {"body": 0, "reach": 0, "dropped": 0}
DETAIL = []
REALISED = []   # values the solver picked on explored paths (written to the evidence as samples)
TRACED = []   # failure descriptions seen while tracing (diagnostics for non-reproducing counterexamples)


def tracing() -> bool:
    try:
        from crosshair.tracers import is_tracing
        return bool(is_tracing())
    except Exception:
        return False


def enter():
    """First statement of every harness body (preconditions already hold)."""
    COUNTS["body"] += 1


def reach():
    """Called after the last call into pydra: the path exercised the target."""
    COUNTS["reach"] += 1


def fail(msg=None):
    """Return False (property violated); on concrete replays keep a description."""
    if msg is not None and tracing():
        from crosshair.tracers import NoTracing
        from crosshair.core import deep_realize
        try:
            m = msg() if callable(msg) else msg
            m = deep_realize(m)
            with NoTracing():
                TRACED.append(str(m)[:1500])
        except Exception as e:
            TRACED.append("<detail failed: %r>" % (e,))
    if msg is not None and not tracing():
        try:
            DETAIL.append(msg() if callable(msg) else str(msg))
        except Exception as e:  # pragma: no cover
            DETAIL.append(f"<detail failed: {e!r}>")
    return False


def assert_repo(*mods):
    for m in mods:
        f = getattr(m, "__file__", "") or ""
        import os
        repo = os.environ.get("VF_REPO", "/repo").rstrip("/")
        assert f.startswith(repo + "/"), f"{m.__name__} loaded from {f}, not {repo}"


def real(x):
    """concrete copy of a (possibly symbolic) value: the solver picks the value and the choice
    becomes a branch of the path tree (so all values inside the bound are still explored)"""
    if not tracing():
        return x
    from crosshair.core import deep_realize
    v = deep_realize(x)
    if len(REALISED) < 40:
        try:
            REALISED.append(repr(v)[:120])
        except Exception:
            pass
    return v


def proxy_intolerance(exc):
    """a TypeError such as '__repr__ returned non-string (type LazyIntSymbolicStr)' means a native repr()/str()
    met a symbolic value (typically while the harness formatted a failure message): CrossHair silently drops
    such a path, so count it -- the runner turns a non-zero count into a harness error"""
    if "returned non-string" in str(exc):
        COUNTS["dropped"] += 1


def decode(code, n, base):
    """code -> n digits in 0..base-1.  A bijection on 0..base**n-1 (affine map with a multiplier coprime to base**n), so every
    combination inside the bound stays reachable, but consecutive codes - the order in which CrossHair enumerates a realised
    integer - give unrelated combinations instead of combinations that differ only in the last digit."""
    m = base ** n
    x = (code * 2654435761 + 12345) % m
    out = []
    for _ in range(n):
        out.append(x % base)
        x //= base
    return out
