"""Regenerate /verif/MANIFEST.json from the property modules (python -m vf.manifest)."""
import importlib
import json
import os

ROOT = "/verif"
NA = {
    "C10": "needs real concurrent processes racing on the real file system through filelock; the interleaving lives in the OS, "
           "a single-threaded symbolic executor can only run the protocol sequentially (that residue is C11's step) - DESIGN.md s6",
    "C29": "the whole property is a round trip through cloudpickle (C extension) into a fresh process; CrossHair realises every "
           "symbolic value at that boundary, leaving plain concrete testing - DESIGN.md s6",
    "C33": "clash avoidance and content preservation are implemented by fileformats.FileSet.copy on the real file system (third-party "
           "code and kernel behaviour, not encodable); the shape-preservation part is covered by C34 - DESIGN.md s6",
}
PENDING = "check not built yet in this revision (planned, see DESIGN.md s4); not claimed until its harness exists"


def main():
    ids = [json.loads(l)["id"] for l in open(os.path.join(ROOT, "properties.jsonl"))]
    checks, na = [], []
    for pid in ids:
        if pid in NA:
            na.append({"property_id": pid, "reason": NA[pid]})
            continue
        if not os.path.exists(os.path.join(ROOT, "vf", "props", f"{pid}.py")):
            na.append({"property_id": pid, "reason": PENDING})
            continue
        m = importlib.import_module(f"vf.props.{pid}").META
        checks.append({
            "property_id": pid,
            "quick_cmd": f"./check {pid} --tier quick",
            "thorough_cmd": f"./check {pid} --tier thorough",
            "evidence_file": f"/verif/evidence/{pid}.json",
            "replay_cmd_template": f"./check {pid} --replay {{path}}",
            "engine": m.get("engine", "crosshair+z3"),
            "level_claimed": {
                "category": "other",
                "text": m.get("level_text") or (
                    "Bounded symbolic execution of the real pydra functions (CrossHair/z3; direct z3 queries where noted): within the "
                    "stated bounds every path is decided by the solver; conditions that finish report 'confirmed over all paths', the "
                    "rest are a time-boxed symbolic search. Counterexamples are replayed concretely before being reported. Not a proof "
                    "of the unbounded property."),
                "design_ref": m.get("design_ref", f"DESIGN.md s4 {pid}"),
            },
            "level_note": "; ".join(m.get("assumptions", []) + ["stubs: " + ", ".join(m.get("stubs", []) or ["none"])] + ["outside: " + "; ".join(m.get("outside", []))]),
            "technique": m.get("technique", "solver-based bounded symbolic execution of the real code (CrossHair + z3), counterexample replay"),
        })
    man = {
        "version": 1,
        "setup_cmd": "./setup.sh",
        "hooks": {"guard": "NIPYPE_PYDRA_VERIF", "enable": "no source hooks: harnesses patch module attributes from outside (DESIGN.md s1)",
                  "baseline_off_cmd": "cd /repo && /venv/bin/python -m pytest -ra -q -p no:cacheprovider --timeout=900 --continue-on-collection-errors",
                  "source_commits": [], "add_only": True},
        "engines": [{"name": "crosshair+z3", "path": "vf/runner.py", "serves_properties": [c["property_id"] for c in checks],
                     "kind_free_text": "symbolic execution of the real Python code per path with z3 (crosshair-tool 0.0.110), plus AST->z3 translation of string kernels"}],
        "checks": checks,
        "not_applicable": na,
        "notes": "exit 0 held / 1 VIOLATION / 3 harness error (vacuous harness, non-reproducing counterexample). known_findings.json lists recorded and fixed defects.",
    }
    json.dump(man, open(os.path.join(ROOT, "MANIFEST.json"), "w"), indent=1)
    print("checks", len(checks), "not_applicable", len(na))


if __name__ == "__main__":
    main()
