"""CrossHair 0.0.110 compatibility shims (DESIGN.md Appendix A.1).

Part of the trusted base.  None of them changes behaviour on concrete values and
all of them are bypassed by the stage-a replay, which runs without CrossHair.
Importing this module installs them (idempotent).
"""
import sys

import os as _os
_REPO = _os.environ.get("VF_REPO", "/repo").rstrip("/")
assert any(p.rstrip("/") == _REPO for p in sys.path), "PYTHONPATH=%s required" % _REPO

import crosshair.core_and_libs  # noqa: F401  (must load first: it resets all registrations)
import crosshair.core as cc
from crosshair.tracers import NoTracing
from crosshair.libimpl.builtinslib import invoke_dunder, is_hashable


def _traced_setattr(obj, name, value):  # (3) no NoTracing around attrs converters
    return type(obj).__setattr__(obj, name, value)


def _plain_repr(obj):  # (4) no `post[]` contract => never short-circuited
    return invoke_dunder(obj, "__repr__")


def _plain_hash(obj):  # (5) ditto
    with NoTracing():
        if not is_hashable(obj):
            return hash(obj)
    return invoke_dunder(obj, "__hash__")


cc._PATCH_REGISTRATIONS[setattr] = _traced_setattr
cc._PATCH_REGISTRATIONS[repr] = _plain_repr
cc._PATCH_REGISTRATIONS[hash] = _plain_hash

import pydra.utils.hash as H  # (1) singledispatch sees proxy classes

if not getattr(H.bytes_repr, "_vf_shim", False):
    _sd = H.bytes_repr

    def _dispatch(obj, cache):
        return _sd.dispatch(type(obj))(obj, cache)

    _dispatch.register, _dispatch.dispatch = _sd.register, _sd.dispatch
    _dispatch.registry = _sd.registry
    _dispatch._vf_shim = True
    _dispatch._vf_orig = _sd
    H.bytes_repr = _dispatch

from pydra.utils import general as G  # (2) KeyError from __getattr__

if not getattr(G._TaskFieldsList.__getattr__, "_vf_shim", False):
    _orig_ga = G._TaskFieldsList.__getattr__

    def _ga(self, name):
        if name.startswith("__"):
            raise AttributeError(name)
        return _orig_ga(self, name)

    _ga._vf_shim = True
    G._TaskFieldsList.__getattr__ = _ga


def _intern(s):  # (6) pathlib interns path parts; sys.intern rejects symbolic str. Interning is
    return s     #     semantically the identity, so keep the value symbolic.


cc._PATCH_REGISTRATIONS[sys.intern] = _intern


import re as _re


def _findall(self, string, pos=0, endpos=None):  # (7) CrossHair realises the subject of Pattern.findall; build it from the
    out = []                                    #     (symbolic) finditer instead: documented equivalence of the two
    it = self.finditer(string, pos) if endpos is None else self.finditer(string, pos, endpos)
    empty = string[:0]
    for m in it:
        if self.groups == 0:
            out.append(m.group(0))
        elif self.groups == 1:
            g = m.group(1)
            out.append(empty if g is None else g)
        else:
            out.append(tuple(empty if g is None else g for g in m.groups()))
    return out


cc._PATCH_REGISTRATIONS[_re.Pattern.findall] = _findall
