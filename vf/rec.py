"""Process-global event log for task bodies.  Bodies import this module *inside* the function so
that the log survives cloudpickle's by-value pickling of task functions."""
LOG = []


def rec(*ev):
    LOG.append(tuple(ev))


def clear():
    LOG.clear()

FLAGS = {}

MSGS = []
