"""Orchestration: generate harness module from /repo's current tree, run CrossHair per
condition on a process pool, replay counterexamples, write evidence, map exit codes.

exit 0  property held on everything explored (KNOWN-FINDING lines allowed)
exit 1  reproduced counterexample not covered by known_findings.json (+ VIOLATION line)
exit 3  harness error: vacuous harness, non-reproducing counterexample, crashed harness
"""
import argparse
import concurrent.futures as cf
import hashlib
import importlib
import json
import os
import resource
import subprocess
import sys
import time

ROOT = "/verif"
BUILD = os.environ.get("VF_BUILD", os.path.join(ROOT, "build"))    # scratch builds for seeded-change runs use their own
GEN = os.path.join(BUILD, "gen")
PY = os.path.join(ROOT, ".venv", "bin", "python")
REPO = os.environ.get("VF_REPO", "/repo").rstrip("/")   # /repo unless a scratch worktree is being examined (seeded changes)
ENV = dict(os.environ, PYTHONPATH=f"{REPO}:{ROOT}:{BUILD}", PYTHONDONTWRITEBYTECODE="1",
           PYTHONHASHSEED="0")
ENV.pop("NIPYPE_PYDRA_VERIF", None)


def _limits():
    try:
        resource.setrlimit(resource.RLIMIT_AS, (12 << 30, 12 << 30))
    except Exception:
        pass
    os.setsid()


def sub(argv, timeout, tag):
    t0 = time.time()
    try:
        p = subprocess.run(argv, env=ENV, cwd=ROOT, capture_output=True, text=True,
                           timeout=timeout, preexec_fn=_limits)
        txt = p.stdout
        for line in txt.splitlines():
            if line.startswith(tag):
                return json.loads(line[len(tag):])
        return {"verdict": "error", "reproduced": None,
                "error": f"rc={p.returncode} no result line\n" + (p.stderr or "")[-2500:] + txt[-500:]}
    except subprocess.TimeoutExpired:
        return {"verdict": "killed", "reproduced": None, "error": "hard timeout", "wall_s": round(time.time() - t0, 1)}


def run_condition(mod, c):
    scale = float(os.environ.get("VF_TIMEOUT_SCALE", "1"))     # smoke runs of a tier (recorded in the evidence as bounds.timeout_scale)
    if c.get("kind") == "twin":
        # a twin ends as soon as its assert(False) is reached, so a generous budget costs nothing when the harness is healthy
        # and keeps a loaded machine from turning "slow" into "vacuous"
        c = dict(c, timeout=max(3 * c["timeout"], 180))
    elif scale != 1:
        c = dict(c, timeout=max(5, int(c["timeout"] * scale)))
    argv = [PY, "-m", "vf.chrun", mod, c["name"], str(c["timeout"])]
    if c.get("per_path"):
        argv.append(str(c["per_path"]))
    r = sub(argv, c["timeout"] * 2 + 90, "@@RESULT@@")
    r["name"] = c["name"]
    r["kind"] = c.get("kind", "prop")
    return r


def replay_a(mod, fn, call, timeout=300):
    return sub([PY, "-m", "vf.replay", mod, fn, call], timeout, "@@REPLAY@@")


def repo_state():
    def g(*a):
        return subprocess.run(["git", "-C", REPO, *a], capture_output=True, text=True).stdout
    return {"head": g("rev-parse", "HEAD").strip(),
            "dirty_digest": hashlib.sha1((g("status", "--porcelain") + g("diff")).encode()).hexdigest()[:12]}


def load_findings(pid):
    path = os.path.join(ROOT, "known_findings.json")
    if not os.path.exists(path):
        return []
    data = json.load(open(path))
    return [k for k in data.get("known", []) if k["property"] == pid]


def write_module(name, source):
    os.makedirs(GEN, exist_ok=True)
    open(os.path.join(GEN, "__init__.py"), "a").close()
    with open(os.path.join(GEN, name + ".py"), "w") as f:
        f.write(source)
    return "gen." + name


def main():
    ap = argparse.ArgumentParser()
    ap.add_argument("pid")
    ap.add_argument("--tier", default=os.environ.get("VERIF_TIER", "quick"))
    ap.add_argument("--replay")
    ap.add_argument("--only", help="comma-separated substring filter on condition names (debugging)")
    ap.add_argument("--jobs", type=int, default=min(16, os.cpu_count() or 4))
    a = ap.parse_args()
    tier = a.tier if a.tier in ("quick", "thorough") else "quick"
    seed = int(os.environ.get("VERIF_SEED", "0") or 0)
    pid = a.pid
    t0 = time.time()
    prop = importlib.import_module(f"vf.props.{pid}")

    if a.replay:
        rp = json.load(open(a.replay))
        spec = prop.build(rp.get("tier", tier), rp.get("seed", seed), set(rp.get("exclude", [])))
        mod = write_module(f"{pid}_replay", spec["source"])
        r = replay_a(mod, rp["fn"], rp["call"])
        print(json.dumps(r, indent=1))
        if r.get("reproduced") and hasattr(prop, "stage_b"):
            print(json.dumps(prop.stage_b(rp["fn"], rp["call"]), indent=1))
        return 1 if r.get("reproduced") else 0

    known = load_findings(pid)
    exclude = {k["id"] for k in known}
    spec = prop.build(tier, seed, set(exclude))
    modname = f"{pid}_{tier}"
    mod = write_module(modname, spec["source"])
    harness_errors, known_lines, witness_res = [], [], []
    # 1. known findings: replay witnesses; only still-failing ones stay excluded
    for k in known:
        w = k["witness"]
        r = replay_a(mod, w["fn"], w["call"])
        rb = None
        if r.get("reproduced") and hasattr(prop, "stage_b"):
            rb = prop.stage_b(w["fn"], w["call"])
        still = bool(r.get("reproduced")) and (rb is None or rb.get("reproduced") is not False)
        witness_res.append({"id": k["id"], "still_fails": still, "stage_a": r.get("reproduced"),
                            "stage_b": None if rb is None else rb.get("reproduced")})
        if still:
            line = f"KNOWN-FINDING: property={pid} {k['id']}: {k['what']}"
            print(line, flush=True)
            known_lines.append(line)
        else:
            exclude.discard(k["id"])
    if exclude != {k["id"] for k in known}:
        spec = prop.build(tier, seed, set(exclude))
        mod = write_module(modname, spec["source"])
    conds = spec["conditions"]
    if a.only:
        conds = [c for c in conds if any(x in c["name"] for x in a.only.split(","))]
    # 2. CrossHair per condition
    results = []
    with cf.ThreadPoolExecutor(max_workers=a.jobs) as ex:
        futs = [ex.submit(run_condition, mod, c) for c in conds]
        for f in cf.as_completed(futs):
            results.append(f.result())
    results.sort(key=lambda r: r["name"])
    # 3. E2 queries (optional)
    e2 = []
    if hasattr(prop, "smt"):
        try:
            e2 = prop.smt(tier, seed, set(exclude))
        except Exception as e:  # translator crash = harness error
            harness_errors.append(f"E2 crashed: {e!r}")
    # 4. verdicts
    violations = []
    os.makedirs(os.path.join(BUILD, "replays", pid), exist_ok=True)
    counts = {"confirmed": 0, "not_confirmed": 0, "counterexample": 0, "twin_refuted": 0,
              "pre_unsat": 0, "error": 0}
    cex_records = []

    transient = []

    def handle_cex(fn, call, msg, origin, traced=None):
        ra = replay_a(mod, fn, call) if call else {"reproduced": None, "error": "unparsable call"}
        rec = {"fn": fn, "call": call, "message": msg, "origin": origin, "stage_a": ra}
        if not ra.get("reproduced"):
            # traced-only failure: re-run the condition once; only a *repeatable* non-reproducing
            # counterexample is a harness error, a one-off is recorded as transient
            again = None
            if origin == "crosshair":
                c = next((c for c in conds if c["name"] == fn), None)
                if c is not None:
                    again = run_condition(mod, c)
            rec["traced_detail"] = traced
            rec["rerun_verdict"] = None if again is None else again.get("verdict")
            if again is not None and again.get("verdict") == "counterexample":
                ra2 = replay_a(mod, fn, again.get("call")) if again.get("call") else {"reproduced": None}
                if ra2.get("reproduced"):
                    rec.update(call=again.get("call"), message=again.get("cex_message"), stage_a=ra2)
                    ra = ra2
                    call, msg = again.get("call"), again.get("cex_message")
                else:
                    harness_errors.append(f"{fn}: counterexample does not reproduce without CrossHair (twice): {msg} / traced: {traced} / {ra}")
                    cex_records.append(rec)
                    return
            else:
                transient.append({"fn": fn, "call": call, "traced_detail": traced, "rerun": rec["rerun_verdict"]})
                cex_records.append(rec)
                return
        if hasattr(prop, "stage_b"):
            rb = prop.stage_b(fn, call)
            rec["stage_b"] = rb
            if rb is not None and rb.get("reproduced") is False:
                harness_errors.append(f"{fn}: counterexample reproduces on the harness but not end-to-end: {call}")
                cex_records.append(rec)
                return
        path = os.path.join(BUILD, "replays", pid, f"{fn}.json")
        json.dump({"property": pid, "tier": tier, "seed": seed, "exclude": sorted(exclude), "fn": fn,
                   "call": call, "message": msg, "detail": ra.get("detail"), "stage_b": rec.get("stage_b")},
                  open(path, "w"), indent=1)
        rec["replay"] = path
        violations.append(rec)
        cex_records.append(rec)

    for r in results:
        v = r["verdict"]
        msg = r.get("cex_message", "") or ""
        if v == "counterexample" and ("NotDeterministic" in msg or "CrossHairInternal" in msg
                                      or "IgnoreAttempt" in msg):
            v = r["verdict"] = "error"
            r["error"] = msg
        if int(r.get("dropped") or 0) > 0:
            harness_errors.append(f"{r['name']}: {r['dropped']} path(s) dropped because a native repr()/str() met a symbolic value "
                                  "(harness message formatting) - a violation on such a path would go unreported")
        if r["kind"] == "twin":
            if v == "counterexample":
                counts["twin_refuted"] += 1
            else:
                harness_errors.append(f"reachability twin {r['name']} not refuted ({v}): vacuous harness? {r.get('error','')[:300]}")
            continue
        if v == "confirmed":
            counts["confirmed"] += 1
        elif v in ("not_confirmed",):
            counts["not_confirmed"] += 1
        elif v == "pre_unsat":
            counts["pre_unsat"] += 1
        elif v == "counterexample":
            counts["counterexample"] += 1
            handle_cex(r["name"], r.get("call"), msg, "crosshair", r.get("traced_detail"))
        elif v == "killed":
            counts["not_confirmed"] += 1
        else:
            counts["error"] += 1
            harness_errors.append(f"{r['name']}: {v}: {str(r.get('error') or r.get('messages'))[-1500:]}")
    for q in e2:
        if q.get("result") == "sat" and q.get("replay"):
            handle_cex(q["replay"]["fn"], q["replay"]["call"], f"E2 model for {q['name']}", "smt")
        elif q.get("result") not in ("unsat", "sat", "skipped"):
            q["inconclusive"] = True
        if q.get("result") == "sat" and q.get("expect") == "unsat" and not q.get("replay"):
            harness_errors.append(f"E2 query {q['name']} sat but no replay")
        if q.get("expect") == "sat" and q.get("result") != "sat":
            harness_errors.append(f"E2 reachability query {q['name']} not sat ({q.get('result')})")
    # 5. evidence
    props_run = [r for r in results if r["kind"] != "twin"]
    paths = sum(int(r.get("paths") or 0) for r in results)
    reach = sum(min(int(r.get("reach") or 0), int(r.get("paths") or 0)) for r in props_run)
    n_e2 = len([q for q in e2 if q.get("result") in ("sat", "unsat")])
    samples = []
    for c in conds[:3]:
        samples.append({"condition": c["name"], "doc": c.get("doc", "")[:600]})
    for r in results:
        if r.get("realised_samples") and len(samples) < 8:
            samples.append({"condition": r["name"], "values_picked_by_the_solver_on_explored_paths": r["realised_samples"][:6]})
    for q in e2[:2]:
        samples.append({"smt_query": q["name"], "smtlib": q.get("smtlib", "")[:800], "result": q.get("result")})
    for rec in cex_records[:3]:
        samples.append({"counterexample": rec["call"], "fn": rec["fn"]})
    meta = getattr(prop, "META", {})
    wall = round(time.time() - t0, 2)
    ev = {
        "property_id": pid, "tier": tier, "seed": seed, "level": "other",
        "coverage": {
            "explanation": ("Bounded symbolic execution of the real pydra functions with CrossHair/z3 "
                            "(one condition per generated program shape, data symbolic) plus direct SMT queries; "
                            "verdicts are solver verdicts within the listed bounds; every counterexample is replayed "
                            "concretely before it is reported. " + meta.get("explanation", "")),
            "evaluations": paths + n_e2,
            "distinct_nontrivial": reach + n_e2,
            "rule": ("one evaluation = one CrossHair execution path (a disjoint region of the symbolic input space, "
                     "decided by z3) or one SMT query; a path is non-trivial when it satisfied all preconditions "
                     "and ran past the last call into the encoded pydra functions (counter T.reach()); paths are "
                     "distinct by construction (path conditions are mutually exclusive)"),
            "samples": samples or [{"note": "no conditions"}],
            "exhaustive": bool(props_run) and all(r["verdict"] == "confirmed" for r in props_run) and not any(q.get("inconclusive") for q in e2),
            "functions_encoded": meta.get("functions_encoded", []),
            "bounds": dict(spec.get("bounds", meta.get("bounds", {})), **({"timeout_scale": float(os.environ["VF_TIMEOUT_SCALE"])} if os.environ.get("VF_TIMEOUT_SCALE", "1") not in ("1", "1.0") else {})),
            "outside_claim": meta.get("outside", []),
            "stubs": meta.get("stubs", []),
            "conditions": {"generated": len(conds), **counts},
            "per_condition": [{k: r.get(k) for k in ("name", "kind", "verdict", "paths", "body", "reach", "wall_s")} for r in results],
            "e2_queries": [{k: q.get(k) for k in ("name", "solver", "result", "time_s", "expect", "inconclusive")} for q in e2],
            "solver_time_s": round(sum(float(r.get("wall_s") or 0) for r in results) + sum(float(q.get("time_s") or 0) for q in e2), 2),
            "counterexamples": [{k: rec.get(k) for k in ("fn", "call", "message", "replay")} | {"stage_a": rec["stage_a"].get("reproduced"), "stage_b": (rec.get("stage_b") or {}).get("reproduced")} for rec in cex_records],
            "known_findings": witness_res,
            "harness_errors": harness_errors,
            "transient_unreproduced": transient,
            "repo": repo_state(),
        },
        "assumptions": meta.get("assumptions", []) + [f"stub: {s}" for s in meta.get("stubs", [])],
        "wall_s": wall,
        "violations": len(violations),
    }
    evdir = os.environ.get("VF_EVIDENCE_DIR", os.path.join(ROOT, "evidence"))
    os.makedirs(evdir, exist_ok=True)
    json.dump(ev, open(os.path.join(evdir, f"{pid}.json"), "w"), indent=1, default=str)
    print(f"[{pid}] tier={tier} conditions={len(conds)} {counts} e2={len(e2)} paths={paths} wall={wall}s")
    for rec in violations:
        print(f"VIOLATION property={pid} replay={rec['replay']}")
        print(f"  counterexample: {rec['call']}  detail={rec['stage_a'].get('detail') or rec['stage_a'].get('raised')}")
    if violations:
        return 1
    if harness_errors:
        for h in harness_errors:
            print("HARNESS-ERROR:", h[:2000])
        return 3
    return 0


if __name__ == "__main__":
    sys.exit(main())
