"""Helpers for engine-level harnesses: scratch cache roots on the real file system and a
logical clock (CrossHair makes time.*/datetime.now()/random symbolic, which would fork every
lock-age comparison).  Everything else -- Submitter, Job.run, State, Workflow, pickling,
locks -- is the real code on the real file system.

Stub contract (part of every claim that uses this module):
  LogicalClock  datetime.now() as seen from pydra.engine.{job,submitter} and pydra.utils.hash is a
                strictly increasing concrete instant; strftime in pydra.engine.result is fixed.
  scratch()     cache roots are fresh directories /tmp/vf_scratch/<pid>/<n> removed after the call.
"""
import datetime as _dt
import os
import shutil

_BASE = os.path.join("/tmp", "vf_scratch", str(os.getpid()))
# every checking process gets its own persistent hash-cache directory: PersistentCache.clean_up() of one
# process otherwise races with the deletions of another (FileNotFoundError in lstat) -- that race needs
# concurrent processes (C10, not applicable) and must not disturb single-process harnesses
os.makedirs(os.path.join(_BASE, "hashcache"), exist_ok=True)
os.environ["PYDRA_HASH_CACHE"] = os.path.join(_BASE, "hashcache")
_KEEP = []      # realised copies handed to the untraced hash function stay alive until the next reset():
                # hash_single memoises by id(), a recycled id of a dead temporary would alias two values
_N = [0]
_TICK = [0]
_real_datetime = _dt.datetime


class LogicalDatetime(_dt.datetime):
    @classmethod
    def now(cls, tz=None):
        _TICK[0] += 1
        return _real_datetime(2030, 1, 1) + _dt.timedelta(seconds=_TICK[0])


def install_clock():
    import pydra.engine.job as J
    import pydra.engine.submitter as SUB
    import pydra.utils.hash as H
    import pydra.engine.result as R
    for m in (J, SUB, H):
        m.datetime = LogicalDatetime
    R.strftime = lambda fmt: "20300101-000000"

    class _Time:            # result.load_result polls with time.sleep while a result file is incomplete
        @staticmethod
        def sleep(t):
            _TICK[0] += 1

    R.time = _Time
    # version check would spawn network/etelemetry look-ups
    J.Job._etelemetry_version_data = {}


def scratch():
    _N[0] += 1
    d = os.path.join(_BASE, str(_N[0]))
    shutil.rmtree(d, ignore_errors=True)
    os.makedirs(d)
    return d


def cleanup(d):
    shutil.rmtree(d, ignore_errors=True)


def reset():
    """start of every harness body: forget per-process caches that would leak between paths"""
    del _KEEP[:]
    from pydra.engine.workflow import Workflow
    try:
        Workflow.clear_cache()
    except Exception:
        pass


class UntracedPickle:
    """cloudpickle as seen from pydra.engine.{job,result}: the real cloudpickle, executed outside
    CrossHair's tracer (it is a C-accelerated serializer: symbolic values are realised at this boundary
    anyway; tracing its pure-python fallbacks costs ~20 s per engine run)."""

    def __init__(self):
        import cloudpickle
        self._cp = cloudpickle

    def _call(self, fn, *a):
        try:
            from crosshair.tracers import NoTracing, is_tracing
            from crosshair.core import deep_realize
        except Exception:  # pragma: no cover
            return fn(*a)
        if not is_tracing():
            return fn(*a)
        a = tuple(x if hasattr(x, "read") or hasattr(x, "write") else deep_realize(x) for x in a)
        with NoTracing():
            return fn(*a)

    def dump(self, obj, fp, *a):
        return self._call(self._cp.dump, obj, fp, *a)

    def dumps(self, obj, *a):
        return self._call(self._cp.dumps, obj, *a)

    def load(self, fp):
        return self._call(self._cp.load, fp)

    def loads(self, b):
        return self._call(self._cp.loads, b)


def install_pickle():
    import pydra.engine.job as J
    import pydra.engine.result as R
    up = UntracedPickle()
    J.cp = up
    R.cp = up


def install_hash():
    """hash_function as seen from pydra.compose.base.task / pydra.engine.{job,workflow}: the real
    function, executed outside the tracer on realised values.  Engine-level harnesses hash concrete
    tokens only (the hashing code itself is the subject of C06-C09, traced there)."""
    import pydra.utils.hash as H
    import pydra.compose.base.task as BT
    import pydra.engine.job as J
    import pydra.engine.workflow as W
    real = H.hash_function

    def untraced_hash_function(obj, **kw):
        try:
            from crosshair.tracers import NoTracing, is_tracing
            from crosshair.core import deep_realize
        except Exception:  # pragma: no cover
            return real(obj, **kw)
        if not is_tracing():
            return real(obj, **kw)
        obj = deep_realize(obj)
        _KEEP.append(obj)
        with NoTracing():
            return real(obj, **kw)

    for m in (BT, J, W):
        m.hash_function = untraced_hash_function


def install_all():
    install_clock()
    install_pickle()
    install_hash()


class HangDetected(BaseException):
    """raised by the watchdog; a BaseException so that pydra's own `except Exception` handlers cannot swallow it"""


class deadline:
    """watchdog for one submission: loops that the step budgets do not cover are still reported as hangs.  The limit is on the
    CPU time of the process (ITIMER_PROF), so that a loaded machine does not turn a slow run into a 'hang'; a wall-clock limit
    eight times as long backs it up for loops that block instead of spinning."""

    def __init__(self, seconds):
        self.seconds = seconds

    def __enter__(self):
        import signal

        def handler(signum, frame):
            raise HangDetected("no result after %d s of CPU time (or %d s of wall time)" % (self.seconds, 8 * self.seconds))
        self._old = signal.signal(signal.SIGALRM, handler)
        self._old_prof = signal.signal(signal.SIGPROF, handler)
        signal.setitimer(signal.ITIMER_PROF, self.seconds)
        signal.setitimer(signal.ITIMER_REAL, 8 * self.seconds)
        return self

    def __exit__(self, *exc):
        import signal
        signal.setitimer(signal.ITIMER_PROF, 0)
        signal.setitimer(signal.ITIMER_REAL, 0)
        signal.signal(signal.SIGALRM, self._old)
        signal.signal(signal.SIGPROF, self._old_prof)
        return False


class StateGuard:
    """Module- and class-level mutable containers (dict/list/set attributes) of the code under test are process state that
    survives from one explored path to the next; a path must start from the state a fresh process would have, so the
    containers are snapshotted once and restored (in place) at the start of every path."""

    def __init__(self, *owners):
        import copy
        self.owners = owners
        self.snap = {}
        for o in owners:
            for k, v in list(vars(o).items()):
                if k.startswith("__") or not isinstance(v, (dict, list, set)):
                    continue
                try:
                    self.snap[(id(o), k)] = (o, copy.copy(v))
                except Exception:
                    pass

    def restore(self):
        for (_, k), (o, v) in self.snap.items():
            cur = vars(o).get(k)
            if type(cur) is type(v) and cur != v:
                cur.clear()
                cur.update(v) if isinstance(v, (dict, set)) else cur.extend(v)
        for o in self.owners:                     # containers that did not exist at import time (created lazily)
            for k, v in list(vars(o).items()):
                if not k.startswith("__") and isinstance(v, (dict, list, set)) and (id(o), k) not in self.snap and v:
                    v.clear()
