"""C28 Batch-scheduler workers follow the scheduler's verdict."""
from vf.core import Gen

META = dict(
    technique='solver-based bounded symbolic execution of the real code (CrossHair + z3), counterexample replay; plus AST->z3 reading of SlurmWorker option handling (refuses when the shape is unknown)',
    functions_encoded=["pydra.workers.slurm.SlurmWorker.run / _poll_job / _verify_exit_code / _prepare_runscripts",
                       "pydra.engine.result.save (job record for the batch script)"],
    stubs=["vf/hl/slurmh.py: scripted scheduler (read_and_display_async as seen from pydra.workers.base), asyncio.sleep as seen from "
           "pydra.workers.slurm, trampoline instead of an event loop", "vf/engine.py"],
    outside=["the SGE worker: SgeWorker.run cannot complete any submission on this tree (it calls load_job(..., ind=...) - not a parameter - "
             "and adds an int to a dict), so its response handling is unreachable; recorded as a finding, not explored",
             "more than 5 scheduler responses", "scheduler argument strings outside the 13-entry vocabulary (E1) / the option-spelling "
             "grammar (E2)", "'and its result exists': result loading is the submitter's side (C11/C12)"],
    assumptions=["response vocabulary: RUNNING, PENDING, COMPLETED 0:0, COMPLETED 2:0, FAILED 1:0, CANCELLED, TIMEOUT, PREEMPTED, no accounting "
                 "record; after the scripted responses the scheduler answers COMPLETED"],
    explanation="E2: the option-detection regexes are read from SlurmWorker.run's source and translated to z3 regular expressions.",
)

HELPERS = '''
from vf.hl import slurmh as SH

def e2_replay(arg):
    SH.ARGS.append(arg)
    try:
        err = SH.c28(len(SH.ARGS) - 1, [1])
    finally:
        SH.ARGS.pop()
    return T.fail(err) if err else True

import pydra.workers.slurm as SLM
T.assert_repo(SLM)
'''


def build(tier, seed, exclude):
    g = Gen("C28", exclude)
    g.raw(HELPERS)
    quick = tier == "quick"
    to = 100 if quick else 400
    from vf.hl.slurmh import ARGS
    skip = set()
    if "C28-attached-option-spelling" in exclude:
        skip |= {i for i, a in enumerate(ARGS) if a in ("-Jmyjob", "-oout.txt")}
    idx = [i for i in range(len(ARGS)) if i not in skip]
    chunks = [idx[k::4] for k in range(4)]
    for k, ch in enumerate(chunks):
        g.cond(f"h_slurm_{k}", "ai: int, p0: int, p1: int, p2: int, n: int", [f"0 <= ai < {len(ch)} and 0 <= p0 < 9 and 0 <= p1 < 9 and 0 <= p2 < 9 and 0 <= n <= 3"], f"""
            polls = [T.real(p0), T.real(p1), T.real(p2)][:T.real(n)]
            err = SH.c28({ch!r}[T.real(ai)], polls)
            return T.fail(err) if err else True
        """, timeout=to)
    g.cond("twin_c28", "p0: int", ["0 <= p0 < 2"], """
        err = SH.c28(0, [T.real(p0)])
        return False
    """, timeout=100, kind="twin")
    g.witness("w_sge_unusable", """
        err, calls = SH.sge_smoke()
        if isinstance(err, (TypeError, AttributeError)):
            return T.fail("SgeWorker.run fails before contacting the scheduler: %r" % (err,))
        return True
    """)
    g.witness("w_attached_spelling", """
        err = SH.c28(SH.ARGS.index("-Jmyjob"), [1])
        return T.fail(err) if err else True
    """)
    return g.spec(bounds={"scheduler argument strings": ARGS, "responses": "<= 3 scripted polls from a 9-word vocabulary"})


def smt(tier, seed, exclude):
    """E2: is there an argument string that contains a valid spelling of the job-name/output/error option which the
    detection regex in SlurmWorker.run misses?"""
    import ast, inspect, re, textwrap, time
    import z3
    import pydra.workers.slurm as SL
    src = textwrap.dedent(inspect.getsource(SL.SlurmWorker.run))
    pats = [n.args[0].value for n in ast.walk(ast.parse(src)) if isinstance(n, ast.Call) and isinstance(n.func, ast.Attribute)
            and n.func.attr == "search" and n.args and isinstance(n.args[0], ast.Constant) and "(?<=" in str(n.args[0].value)]
    out = []
    if not pats:
        return [{"name": "slurm option detection", "result": "refused", "solver": "z3",
                 "why": "SlurmWorker.run no longer detects options with look-behind regular expressions; E1 conditions cover the option handling"}]
    nonspace = z3.Complement(z3.Union(z3.Re(" "), z3.Re("\t"), z3.Re("\n")))
    nonspace = z3.Intersect(nonspace, z3.AllChar(z3.ReSort(z3.StringSort())))
    anystr = z3.Star(z3.AllChar(z3.ReSort(z3.StringSort())))
    for pat, (short, long) in zip(pats, (("J", "job-name"), ("o", "output"), ("e", "error"))):
        alts = pat.split("|")
        terms = []
        ok = True
        for a in alts:
            m = re.fullmatch(r"\(\?<=([^)]*)\)\\S\+", a)
            if not m:
                ok = False
                break
            terms.append(z3.Concat(anystr, z3.Re(m.group(1)), z3.Plus(nonspace), anystr))
        if not ok:
            out.append({"name": f"slurm option regex {pat!r}", "result": "refused", "solver": "z3", "why": "pattern shape not known to the translator"})
            continue
        detect = z3.Union(*terms) if len(terms) > 1 else terms[0]
        s = z3.String("args")
        val = z3.String("val")
        spellings = [z3.Concat(z3.StringVal(f"-{short} "), val), z3.Concat(z3.StringVal(f"-{short}"), val),
                     z3.Concat(z3.StringVal(f"--{long}="), val), z3.Concat(z3.StringVal(f"--{long} "), val)]
        solver = z3.Solver()
        solver.set("timeout", 60000)
        solver.add(z3.InRe(val, z3.Plus(z3.Range("a", "z"))), z3.Length(val) <= 4)
        solver.add(z3.Or(*[s == z3.Concat(z3.StringVal("-N 1 "), sp) for sp in spellings]))
        solver.add(z3.Not(z3.InRe(s, detect)))
        t0 = time.time()
        r = str(solver.check())
        q = {"name": f"user {long} option in a valid spelling that the detection regex {pat!r} misses", "solver": "z3 " + z3.get_version_string(),
             "result": r, "expect": "unsat", "time_s": round(time.time() - t0, 3), "smtlib": solver.to_smt2()[-1200:]}
        if r == "sat":
            model = solver.model()
            arg = model[s].as_string()
            q["model"] = arg
            if "C28-attached-option-spelling" in exclude:
                q["result"] = "skipped"
                q["note"] = "recorded finding C28-attached-option-spelling: " + arg
            else:
                q["replay"] = {"fn": "e2_replay", "call": f"e2_replay({arg!r})"}
        out.append(q)
    return out
