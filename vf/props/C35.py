"""C35 Job lifecycle leaves the process and cache directory consistent."""
from vf.core import Gen

META = dict(
    functions_encoded=["pydra.engine.job.Job.run (try/finally structure)", "Job._populate_filesystem", "pydra.engine.audit.Audit.start_audit",
                       "pydra.engine.hooks.TaskHooks", "pydra.engine.result.save / record_error", "Submitter.__call__"],
    stubs=["vf/engine.py", "fault injection: user hooks (public API) raise; save / record_error / Audit.start_audit / Outputs._from_job are wrapped "
           "to raise an ordinary exception at the selected site after (start_audit) or instead of doing their work"],
    outside=["process death (C12)", "faults inside third-party libraries (filelock, cloudpickle)", "asynchronous run_async path (workflow jobs)"],
    assumptions=["one injected exception per run, optionally combined with a failing task body"],
)

HELPERS = '''
from vf.hl import eng as EN
import pydra.engine.job as JB
T.assert_repo(JB)
'''


def build(tier, seed, exclude):
    g = Gen("C35", exclude)
    g.raw(HELPERS)
    quick = tier == "quick"
    to = 110 if quick else 400
    from vf.hl.eng import SITES
    finally_sites = {"hook_post_run_task", "save_result", "record_error", "save_job_record"}
    for k, nm in enumerate(SITES):
        if "C35-fault-in-cleanup" in exclude and nm in finally_sites:
            continue
        g.cond(f"h_fault_{nm}", "body_fails: bool, pre_exists: bool", ["True"], f"""
            err = EN.c35({k}, T.real(body_fails), T.real(pre_exists), 1)
            return T.fail(err) if err else True
        """, timeout=to)
    g.cond("twin_c35", "b: bool", ["True"], """
        err = EN.c35(0, T.real(b), False, 1)
        return False
    """, timeout=120, kind="twin")
    g.witness("w_fault_in_cleanup", """
        err = EN.c35(EN.SITES.index("hook_post_run_task"), False, False, 1)
        return T.fail(err) if err else True
    """)
    return g.spec(bounds={"fault sites": SITES, "combined with": "failing body / pre-existing complete result (symbolic flags)"})
