"""C16 The max_concurrent limit is never exceeded."""
from vf.core import Gen
from vf.props.C14 import HELPERS

META = dict(
    functions_encoded=["pydra.engine.submitter.Submitter.get_runnable_tasks (max_concurrent truncation)", "Submitter.expand_workflow_async "
                       "(submission rule, futured)", "NodeExecution.get_runnable_tasks / update_status"],
    stubs=["vf/hl/sched.py: in-flight = jobs handed to the worker (asyncio.Task created) and not yet completed", "vf/engine.py"],
    outside=["real process pools (their n_procs is a separate limit)", "more than 6 nodes / 8 schedule decisions"],
    assumptions=["as C14; a job handed to an asynchronous worker counts as executing until it completes"],
)
NS = 6


def build(tier, seed, exclude):
    g = Gen("C16", exclude)
    g.raw(HELPERS)
    quick = tier == "quick"
    to = 110 if quick else 600
    params = "sd: int"
    pre = [f"0 <= sd < {4 ** NS}"]
    ch = f"AP.S.decode(T.real(sd), {NS}, 4)"
    for shape in ("indep", "forkjoin", "wide"):
        for k in (1, 2, 3):
            if "C16-running-not-counted" in exclude and k > 1:
                continue
            g.cond(f"h_{shape}_k{k}", params, pre, f"""
                err = AP.c16({shape!r}, {ch}, {k})
                return T.fail(err) if err else True
            """, timeout=to)
    for shape in ("wide", "forkjoin"):
        for k in (1, 2):
            g.cond(f"h_{shape}_k{k}_rerun", params, pre, f"""
                err = AP.c16({shape!r}, {ch}, {k}, warm_rerun=True)
                return T.fail(err) if err else True
            """, timeout=to)
    # nested workflows: with a limit of 1 the limit holds (the recorded finding concerns limits >= 2)
    g.cond("h_nested_k1", params, pre, f"""
        err = AP.c16("nested", {ch}, 1)
        return T.fail(err) if err else True
    """, timeout=to)
    if "C16-nested-workflows-count-separately" not in exclude:
        for k in (2, 3):
            g.cond(f"h_nested_k{k}", params, pre, f"""
                err = AP.c16("nested", {ch}, {k})
                return T.fail(err) if err else True
            """, timeout=to)
    g.cond("twin_c16", "c0: int", ["0 <= c0 < 2"], """
        err = AP.c16("indep", [T.real(c0)], 1)
        return False
    """, timeout=120, kind="twin")
    g.witness("w_nested", """
        err = AP.c16("nested", [0, 0, 0, 0, 0, 0], 2)
        return T.fail(err) if err else True
    """)
    g.witness("w_k2", """
        err = AP.c16("wide", [0, 0, 0, 0, 0, 0], 2)
        return T.fail(err) if err else True
    """)
    return g.spec(bounds={"shapes": ["indep", "forkjoin", "wide (4 independent nodes)"], "k": "1..3", "schedule": f"{NS} four-way decisions"})
