"""C18 Every submission terminates."""
from vf.core import Gen
from vf.props.C14 import HELPERS

META = dict(
    functions_encoded=["pydra.engine.graph.DiGraph.sorting / _sorting / add_edges", "pydra.engine.node.Node.Inputs.__setattr__",
                       "pydra.engine.workflow.Workflow.construct / _create_graph / execution_graph", "Submitter.expand_workflow (loop "
                       "condition)", "Submitter.expand_workflow_async (stall detection)", "Submitter.get_runnable_tasks"],
    stubs=["vf/hl/sched.py", "vf/engine.py", "termination is turned into an assertion by budgets derived from the code: DiGraph._sorting may be "
           "called at most n times per sort, either execution loop needs at most |jobs|+1 rounds (+11 for the stall detector); exceeding a "
           "budget raises BudgetExceeded, which the harness reports as non-termination"],
    outside=["workflows with more than 3-6 nodes, more than two late assignments", "real wall-clock behaviour (the stall detector's sleeps are logical)"],
    assumptions=["a budget overrun is a hang: the budgets are 10x the bound derived from the code; loops outside the budgeted functions are caught by a watchdog per submission: 25 s of CPU time of the process, backed by 200 s of wall time (a normal run takes < 10 s of CPU traced)"],
)
NS = 4


def build(tier, seed, exclude):
    g = Gen("C18", exclude)
    g.raw(HELPERS)
    quick = tier == "quick"
    to = 110 if quick else 500
    for typed in (True, False):
        for use_async in (False, True):
            nm = f"h_late_{'typed' if typed else 'any'}_{'async' if use_async else 'sync'}"
            g.cond(nm, "i: int, j: int, sd: int", ["-1 <= i < 3 and 0 <= j < 3 and 0 <= sd < 64"], f"""
                err = AP.c18(T.real(i), T.real(j), {typed}, {use_async}, AP.S.decode(T.real(sd), 3, 4))
                return T.fail(err) if err else True
            """, timeout=to)
    # two late assignments (a cycle plus a node hanging below it)
    for i0 in range(3):
        g.cond(f"h_late_two_any_{i0}", "j: int, i2: int, j2: int, use_async: bool", ["0 <= j < 3 and 0 <= i2 < 3 and 0 <= j2 < 3"], f"""
            err = AP.c18({i0}, T.real(j), False, T.real(use_async), [0, 0, 0], second=(T.real(i2), T.real(j2)))
            return T.fail(err) if err else True
        """, timeout=to)
    # failing / stalled workflows still end (async loop): every failing subset, symbolic schedule
    # one condition per concurrency limit; the schedule code is realised first so that the failing subset varies fastest
    # (CrossHair enumerates the last realised value first)
    params = "sd: int, bits: int"
    pre = [f"0 <= sd < {4 ** NS}", "0 <= bits < 4"]
    ch = f"AP.S.decode(sdr, {NS}, 4)"
    for shape in ("indep", "forkjoin"):
        for kk in (0, 1, 2):
            g.cond(f"h_ends_{shape}_k{kk}", params, pre, f"""
                sdr = T.real(sd)
                fails = {{n for b, n in enumerate(AP.FAILABLE[{shape!r}]) if (T.real(bits) >> b) & 1}}
                res, err, ev, stats = AP.run_shape({shape!r}, fails, {ch}, {None if kk == 0 else kk})
                T.reach()
                if isinstance(err, AP.S.BudgetExceeded) or (res is None and err is None):
                    return T.fail(lambda: "{shape} failing %s max_concurrent={kk or 'unlimited'} schedule %s: %r" % (sorted(fails), {ch}, err))
                return True
            """, timeout=to)
    g.cond("twin_c18", "j: int", ["0 <= j < 3"], """
        err = AP.c18(-1, T.real(j), True, False, [])
        return False
    """, timeout=120, kind="twin")
    return g.spec(bounds={"nodes": 3, "late assignment": "every (i, j) incl. self and back edges, typed and Any fields", "loops": "sync and async",
                          "schedule": "3-4 four-way decisions"})
