"""C21 Accepted lazy connections are honoured at run time."""
import typing as ty
from pathlib import Path

from vf.core import Gen
from vf.props.C20 import TYPES

META = dict(
    functions_encoded=["pydra.utils.typing.TypeParser.check_type", "expand_and_check", "check_basic", "check_union", "check_tuple",
                       "check_sequence", "check_mapping", "TypeParser.coerce (runtime side)", "is_subclass", "check_type_coercible"],
    stubs=[],
    outside=["fixed-length tuple arity (carved out by the property)", "type expressions deeper than 2 levels", "fileformats types",
             "strings/collections longer than 2"],
    assumptions=["the pairs (S, T) are those accepted by TypeParser(T).check_type(S) on the current tree with superclass_auto_cast=False, "
                 "decided concretely when the harness is generated"],
)

# source types: (name, pydra type expression, CrossHair annotation, precondition)
SOURCES = [
    ("int", "int", "int", "True"), ("str", "str", "str", "len(v) <= 2"), ("bytes", "bytes", "bytes", "len(v) <= 2"),
    ("bool", "bool", "bool", "True"), ("float", "float", "float", "True"),
    ("list_int", "list[int]", "List[int]", "len(v) <= 2"), ("list_str", "list[str]", "List[str]", "len(v) <= 2 and all(len(s) <= 2 for s in v)"),
    ("tuple_int_str", "tuple[int, str]", "Tuple[int, str]", "len(v[1]) <= 2"),
    ("tuple_int_var", "tuple[int, ...]", "Tuple[int, ...]", "len(v) <= 3"),
    ("tuple_str_var", "tuple[str, ...]", "Tuple[str, ...]", "len(v) <= 2 and all(len(s) <= 2 for s in v)"),
    ("dict_str_int", "dict[str, int]", "Dict[str, int]", "len(v) <= 2 and all(len(s) <= 2 for s in v)"),
    ("set_str", "set[str]", "Set[str]", "len(v) <= 2 and all(len(s) <= 2 for s in v)"),
    ("frozenset_str", "frozenset[str]", "ty.FrozenSet[str]", "len(v) <= 2 and all(len(s) <= 2 for s in v)"),
    ("int_none", "ty.Optional[int]", "Optional[int]", "True"),
    ("str_int", "ty.Union[str, int]", "ty.Union[str, int]", "not isinstance(v, str) or len(v) <= 2"),
    ("list_list_int", "list[list[int]]", "List[List[int]]", "len(v) <= 2 and all(len(r) <= 2 for r in v)"),
    ("list_str_none", "ty.Optional[list[str]]", "Optional[List[str]]", "v is None or (len(v) <= 2 and all(len(s) <= 2 for s in v))"),
    ("int_float", "ty.Union[int, float]", "ty.Union[int, float]", "True"),
    ("list_int_str", "list[ty.Union[int, str]]", "List[ty.Union[int, str]]", "len(v) <= 2 and all(not isinstance(s, str) or len(s) <= 1 for s in v)"),
    ("dict_str_str", "dict[str, str]", "Dict[str, str]", "len(v) <= 2 and all(len(k) <= 2 and len(x) <= 2 for k, x in v.items())"),
    ("dict_str_list_str", "dict[str, list[str]]", "Dict[str, List[str]]", "len(v) <= 1 and all(len(k) <= 2 and len(x) <= 2 and all(len(e) <= 1 for e in x) for k, x in v.items())"),
]

# targets that are unions of parameterised containers (the member a value goes through matters); pairs with these are never sampled out
UNION_TARGETS = [
    ("u_float_str", "ty.Union[float, str]"), ("u_listfloat_str", "ty.Union[list[float], str]"),
    ("u_liststr_listint", "ty.Union[list[str], list[int]]"), ("u_listint_liststr", "ty.Union[list[int], list[str]]"),
    ("u_listint_tupstr", "ty.Union[list[int], tuple[str, ...]]"), ("u_tupint_liststr", "ty.Union[tuple[int, ...], list[str]]"),
    ("u_dictint_dictstr_none", "ty.Union[dict[str, int], dict[str, str], None]"),
    ("dict_str_u_lists", "dict[str, ty.Union[list[float], list[str]]]"), ("u_int_listint", "ty.Union[int, list[int]]"),
]

HELPERS = '''
import os
from pathlib import Path
from pydra.utils import typing as PT
from pydra.utils.typing import TypeParser, MultiInputObj
T.assert_repo(PT)

def _c21(src, tgt, v, arity_carveout):
    try:
        TypeParser(tgt)(v)
    except TypeError as e:
        T.reach()
        if arity_carveout is not None:
            # fixed-length tuple arity is carved out by the property
            try:
                if len(v) != arity_carveout:
                    return None
            except TypeError:
                pass
        return "connection %s -> %s is accepted at build time but the runtime value %r is rejected: %s" % (src, tgt, v, str(e)[:200])
    T.reach()
    return None
'''


def accepted_pairs():
    from pydra.utils.typing import TypeParser, MultiInputObj  # noqa: F401
    ns = {"ty": ty, "Path": Path, "MultiInputObj": MultiInputObj}
    out = []
    for (sn, sx, sa, spre) in SOURCES:
        S = eval(sx, ns)
        for (tn, tx) in TYPES + [("int_float", "ty.Union[int, float]"), ("tuple_int_int", "tuple[int, int]"), ("list_float", "list[float]"),
                                 ("any", "ty.Any"), ("list_int_str", "list[ty.Union[int, str]]"), ("dict_str_float", "dict[str, float]"),
                                 ("tuple_float_var", "tuple[float, ...]"), ("list_any", "list[ty.Any]")] + UNION_TARGETS:
            Tt = eval(tx, ns)
            try:
                TypeParser(Tt, superclass_auto_cast=False).check_type(S)
            except TypeError:
                continue
            except Exception:
                continue
            out.append(((sn, sx, sa, spre), (tn, tx)))
    return out


def build(tier, seed, exclude):
    import random
    g = Gen("C21", exclude)
    g.raw(HELPERS)
    quick = tier == "quick"
    pairs = accepted_pairs()
    rnd = random.Random(seed)
    if quick and len(pairs) > 90:
        keep = {t for t, _ in UNION_TARGETS}
        always = [p for p in pairs if p[1][0] in keep]
        rest = [p for p in pairs if p[1][0] not in keep]
        pairs = always + rnd.sample(rest, max(0, min(len(rest), 90 - len(always) // 2)))
    to = 10 if quick else 40
    for (sn, sx, sa, spre), (tn, tx) in pairs:
        Tt = eval(tx, {"ty": ty, "Path": Path, "MultiInputObj": __import__("pydra.utils.typing", fromlist=["x"]).MultiInputObj})
        carve = None
        if ty.get_origin(Tt) is tuple and Ellipsis not in ty.get_args(Tt):
            carve = len(ty.get_args(Tt))
        if "C21-collection-to-bytes" in exclude and tn == "bytes" and sn != "bytes":
            continue
        if "C21-set-to-abstract-sequence" in exclude and tn == "seq_str" and sn in ("set_str", "frozenset_str"):
            continue
        g.cond(f"h_{sn}__to__{tn}", f"v: {sa}", [spre], f"""
            err = _c21({sx!r}, {tx}, v, {carve})
            return T.fail(err) if err else True
        """, timeout=to)
    g.cond("twin_c21", "v: int", ["True"], """
        err = _c21("int", float, v, False)
        return False
    """, timeout=20, kind="twin")
    g.witness("w_list_str_to_bytes", """
        TypeParser(bytes, superclass_auto_cast=False).check_type(list[str])     # accepted at build time
        err = _c21("list[str]", bytes, ["a"], None)
        return T.fail(err) if err else True
    """)
    g.witness("w_set_to_abstract_sequence", """
        TypeParser(ty.Sequence[str], superclass_auto_cast=False).check_type(set[str])
        err = _c21("set[str]", ty.Sequence[str], {"a"}, None)
        return T.fail(err) if err else True
    """)
    return g.spec(bounds={"source types": len(SOURCES), "accepted (S, T) pairs on this tree": len(pairs), "strings": "<= 2", "collections": "<= 2-3"})
