"""C36 Provenance records are complete and consistent."""
from vf.core import Gen

META = dict(
    technique='solver-based bounded symbolic execution of the real code (CrossHair + z3), counterexample replay; the ALL-flag (resource monitor) runs execute solver-chosen inputs outside the tracer',
    functions_encoded=["pydra.engine.audit.Audit.start_audit / audit_task / monitor / finalize_audit / audit_message / audit_check",
                       "pydra.utils.messenger.send_message / make_message", "pydra.engine.job.Job.run (hook points of the audit)"],
    stubs=["vf/engine.py", "an in-memory Messenger subclass (public plug-in API) collects the records; the h_prov_file_* conditions use the real FileMessenger with its default location and read <job dir>/messages/*.jsonld", "fault injection: Audit.audit_task / Audit.monitor replaced by a raising function (h_prov_preamble_fault)"],
    outside=["the ALL-flag runs execute outside the tracer (the resource monitor thread samples psutil against time.time(), which CrossHair makes symbolic); their inputs are solver-chosen, the run itself is concrete", "JSON-LD expansion / collect_messages (pyld needs the network)",
             "shell tasks (audit_task runs '<cmd> --version' in a real shell)"],
    assumptions=["a 'start record' is a message with startedAtTime, an 'end record' one with endedAtTime; records of one activity share @id"],
)

HELPERS = '''
from vf.hl import eng as EN
import pydra.engine.audit as AU
T.assert_repo(AU)
'''


def build(tier, seed, exclude):
    g = Gen("C36", exclude)
    g.raw(HELPERS)
    quick = tier == "quick"
    to = 100 if quick else 400
    for wf in (False, True):
        g.cond(f"h_prov_{'wf' if wf else 'task'}", "fail: bool, x: int", ["0 <= x <= 2"], f"""
            err = EN.c36({wf}, T.real(fail), T.real(x), False)
            return T.fail(err) if err else True
        """, timeout=to)
    # the file messenger with its default location (records land in the job's own directory), PROV and ALL flags
    for wf in (False, True):
        g.cond(f"h_prov_file_{'wf' if wf else 'task'}", "fail: bool, x: int, flag_all: bool", ["0 <= x <= 2"], f"""
            err = EN.c36({wf}, T.real(fail), T.real(x), T.real(flag_all), file_messenger=True)
            return T.fail(err) if err else True
        """, timeout=to)
    # a fault between the start record and the body (the audit preamble itself fails)
    g.cond("h_prov_preamble_fault", "wf: bool, fail: bool, fault: int, fm: bool", ["1 <= fault <= 2"], """
        err = EN.c36(T.real(wf), T.real(fail), 1, False, file_messenger=T.real(fm), fault=T.real(fault))
        return T.fail(err) if err else True
    """, timeout=to)
    g.cond("twin_c36", "fail: bool", ["True"], """
        err = EN.c36(False, T.real(fail), 1, False)
        return False
    """, timeout=100, kind="twin")
    return g.spec(bounds={"tasks": "one python task / a two-node workflow", "faults": "failing body (symbolic flag); audit_task / monitor raising", "flags": "PROV, ALL (file messenger conditions)", "messengers": "in-memory, FileMessenger (default directory)"})
