"""C03 Workflow state propagation matches a nested-loop reference evaluation."""
from vf.core import Gen

META = dict(
    functions_encoded=["pydra.engine.state.State._connect_splitters / _complete_prev_state / _remove_repeated / _add_state_history / "
                       "_prevst_current_check / _merge_previous_groups / _add_current_groups / prepare_inputs", "pydra.engine.workflow.Workflow."
                       "construct / _create_graph", "pydra.engine.node.Node._get_upstream_states / _set_state", "NodeExecution.start / "
                       "_split_task / _resolve_lazy_inputs", "pydra.engine.lazy.LazyOutField._get_value", "WorkflowOutputs._from_job",
                       "Submitter.expand_workflow"],
    stubs=["vf/engine.py (scratch cache root on the real file system, logical clock, untraced cloudpickle/hash of concrete tokens)"],
    outside=["more than 4 nodes, split lists longer than 2 (quick) / 3", "file-typed values", "real workers (C17)", "nested workflows"],
    assumptions=["the reference is a hand-written nested-loop evaluation per workflow shape; a PydraStateError ('not supported') is accepted, "
                 "a wrong answer is not"],
)

HELPERS = '''
from vf.hl import wfprops as WP
import pydra.engine.state as ST
import pydra.engine.workflow as WF
T.assert_repo(ST, WF)
'''
TWO = {"W2", "W5", "W5kw", "W10", "W11", "W13"}


def build(tier, seed, exclude):
    from vf.hl.wfprops import SHAPES
    g = Gen("C03", exclude)
    g.raw(HELPERS)
    quick = tier == "quick"
    to = 110 if quick else 500
    m = 2 if quick else 3
    for shape in SHAPES:
        if "C03-shared-origin-multiplied" in exclude and shape in ("W3",):
            continue
        if "C03-merged-upstream-refanin-crash" in exclude and shape in ("W13",):
            continue
        if shape in TWO:
            g.cond(f"h_{shape}", "nx: int, ny: int, dup: bool", [f"0 <= nx <= {m} and 0 <= ny <= {m}"], f"""
                err = WP.c03({shape!r}, T.real(nx), T.real(ny), T.real(dup))
                return T.fail(err) if err else True
            """, timeout=to)
        else:
            g.cond(f"h_{shape}", "nx: int, dup: bool", [f"0 <= nx <= {m + 1}"], f"""
                err = WP.c03({shape!r}, T.real(nx), 0, T.real(dup))
                return T.fail(err) if err else True
            """, timeout=to)
    g.cond("twin_c03", "nx: int", ["0 <= nx <= 1"], """
        err = WP.c03("W1", T.real(nx), 0, False)
        return False
    """, timeout=120, kind="twin")
    g.witness("w_refanin", """
        err = WP.c03("W13", 2, 2, False)
        return T.fail(err) if err else True
    """)
    g.witness("w_diamond", """
        err = WP.c03("W3", 3, 0, False)
        return T.fail(err) if err else True
    """)
    return g.spec(bounds={"shapes": list(SHAPES), "split lengths": f"0-{m} (0-{m + 1} for single-list shapes)", "duplicate element": "symbolic flag"})
