"""C25 Command-line templates define the task they spell out."""
import random

from vf.core import Gen

META = dict(
    technique='solver-based bounded symbolic execution of the real code (CrossHair + z3), counterexample replay; template text is concrete per condition and parsed outside the tracer, values are symbolic',
    functions_encoded=["pydra.compose.shell.builder.parse_command_line_template", "remaining_positions", "shell.define (template form)",
                       "pydra.compose.shell.task.ShellTask._command_args (argv in template order)"],
    stubs=[],
    outside=["MIME types outside fileformats' core package", "input file tokens (values must exist on disk)", "untyped '<name>' tokens (generic/fs-object values must exist on disk)",
             "templates longer than 6 tokens", "numeric values equal to 0 (recorded finding C22-falsy-number)", "template text itself is concrete per condition (regex parsing of a symbolic template is beyond "
             "CrossHair); values are symbolic"],
    assumptions=["string values are drawn by symbolic index from a pool of shell-safe tokens (C23 owns arbitrary characters)"],
)

# token kinds: (template text, field name, python type name, optional, multi, default, argv builder key)
KINDS = ["pos_int", "pos_str", "pos_float", "opt_str", "multi_plus", "multi_star", "default_int", "option_int", "option_str_untyped",
         "option_opt", "flag", "flag_true", "tuple_opt", "option_multi_int", "option_multi_tuple", "multi_tuple_plus", "out_explicit", "out_inferred"]

# output tokens: (MIME type or None, explicit path template or None)
OUT_EXPLICIT = [("text/csv", "marker"), ("text/csv", "m.csv"), ("application/gzip", "z"), (None, "x_tmp.txt"), ("image/png", "pic"), ("generic/file", "plain")]
OUT_INFERRED = ["text/csv", "image/png", "text/plain", "generic/file", "application/gzip"]


def gen_template(rnd, n):
    toks, specs = [], []
    kinds = [rnd.choice(KINDS) for _ in range(n)]
    # a '+'/'*' positional swallows everything after it on a real command line: keep at most one, and last among positionals
    for i, k in enumerate(kinds):
        nm = "f%s" % "abcdef"[i]
        if k == "pos_int":
            toks.append(f"<{nm}:int>"); specs.append(dict(name=nm, kind="pos", type="int"))
        elif k == "pos_str":
            toks.append(f"<{nm}:str>"); specs.append(dict(name=nm, kind="pos", type="str"))
        elif k == "pos_float":
            toks.append(f"<{nm}:float>"); specs.append(dict(name=nm, kind="pos", type="float"))
        elif k == "opt_str":
            toks.append(f"<{nm}:str?>"); specs.append(dict(name=nm, kind="pos", type="str", optional=True))
        elif k == "multi_plus":
            toks.append(f"<{nm}:int+>"); specs.append(dict(name=nm, kind="pos", type="int", multi=True))
        elif k == "multi_star":
            toks.append(f"<{nm}:str*>"); specs.append(dict(name=nm, kind="pos", type="str", multi=True, default=[]))
        elif k == "default_int":
            toks.append(f"<{nm}:int=3>"); specs.append(dict(name=nm, kind="pos", type="int", default=3))
        elif k == "option_int":
            toks += [f"--{nm}", f"<{nm}:int>"]; specs.append(dict(name=nm, kind="opt", flag=f"--{nm}", type="int"))
        elif k == "option_str_untyped":
            toks += [f"-{nm[1]}", f"<{nm}>"]; specs.append(dict(name=nm, kind="opt", flag=f"-{nm[1]}", type="str"))
        elif k == "option_opt":
            toks += [f"--{nm}", f"<{nm}:str?>"]; specs.append(dict(name=nm, kind="opt", flag=f"--{nm}", type="str", optional=True))
        elif k == "flag":
            toks.append(f"--{nm}<{nm}>"); specs.append(dict(name=nm, kind="flag", flag=f"--{nm}", default=False))
        elif k == "flag_true":
            toks.append(f"--{nm}<{nm}=True>"); specs.append(dict(name=nm, kind="flag", flag=f"--{nm}", default=True))
        elif k == "option_multi_int":
            toks += [f"--{nm}", f"<{nm}:int*>"]; specs.append(dict(name=nm, kind="opt", flag=f"--{nm}", type="int", multi=True, default=[]))
        elif k == "option_multi_tuple":
            toks += [f"--{nm}", f"<{nm}:int,str*>"]; specs.append(dict(name=nm, kind="opt", flag=f"--{nm}", type="tuple_is", multi=True, default=[]))
        elif k == "multi_tuple_plus":
            toks.append(f"<{nm}:int,str+>"); specs.append(dict(name=nm, kind="pos", type="tuple_is", multi=True))
        elif k == "out_explicit":
            mime, tmpl = rnd.choice(OUT_EXPLICIT)
            toks.append(f"<out|{nm}{':' + mime if mime else ''}${tmpl}>"); specs.append(dict(name=nm, kind="out", mime=mime, template=tmpl))
        elif k == "out_inferred":
            mime = rnd.choice(OUT_INFERRED)
            toks.append(f"<out|{nm}:{mime}>"); specs.append(dict(name=nm, kind="out", mime=mime, template=None))
        elif k == "tuple_opt":
            toks += [f"-{nm[1]}", f"<{nm}:int,float>"]; specs.append(dict(name=nm, kind="opt", flag=f"-{nm[1]}", type="tuple"))
    return "prog " + " ".join(toks), specs


HELPERS = '''
import attrs, typing as ty
from pydra.compose import shell
from pydra.utils.typing import MultiInputObj
from pydra.utils.general import get_fields
import pydra.compose.shell.builder as BL
from pydra.compose.shell.templating import template_update
from pathlib import Path
T.assert_repo(BL)

POOL = ["a", "b7", "x.y", "a_b"]
FLOATS = [0.5, 1.25, 2.0]

def _value(spec, raw):
    """raw symbolic parameter -> field value (None = not provided)"""
    k, tp = spec["kind"], spec.get("type")
    if k == "flag":
        return raw
    def one(r):
        return {"int": lambda: r, "str": lambda: POOL[r % len(POOL)], "float": lambda: FLOATS[r % len(FLOATS)], "tuple": lambda: (r, FLOATS[r % len(FLOATS)]),
                "tuple_is": lambda: (r, POOL[r % len(POOL)])}[tp]()
    if spec.get("multi"):
        return [one(r) for r in raw]
    if raw is None:
        return None
    return one(raw)

def _fmt(v):
    return str(v)

def _expected_argv(specs, values):
    out = ["prog"]
    for s in specs:
        v = values[s["name"]]
        if s["kind"] == "flag":
            if v is True:
                out.append(s["flag"])
            continue
        if s["kind"] == "out":
            out.append(str(Path.cwd() / _expected_path_template(s)))
            continue
        if v is None:
            continue
        flag = [s["flag"]] if s["kind"] == "opt" else []
        if s.get("multi"):
            for e in v:
                out += flag + ([_fmt(x) for x in e] if isinstance(e, tuple) else [_fmt(e)])
        elif s.get("type") == "tuple":
            out += flag + [_fmt(e) for e in v]
        else:
            out += flag + [_fmt(v)]
    return out

def _mime_class(mime):
    from fileformats.core import from_mime
    from fileformats.generic import FsObject
    return FsObject if mime is None else from_mime(mime)

def _expected_path_template(s):
    """written after '$'; otherwise the field name plus the extension of the declared format"""
    if s["template"] is not None:
        return s["template"]
    return s["name"] + (_mime_class(s["mime"]).ext or "")

def _expected_type(s):
    if s["kind"] == "out":
        return _mime_class(s["mime"])
    base = {"int": int, "str": str, "float": float, "tuple": tuple[int, float], "tuple_is": tuple[int, str], None: bool}[s.get("type")]
    if s["kind"] == "flag":
        return bool
    if s.get("multi"):
        return MultiInputObj[base]
    if s.get("optional"):
        return base | None
    return base

_DEFS = {}

def _define(template):
    """the template text is concrete: parsing it is executed outside the tracer (nothing symbolic to follow) and once per process"""
    if template not in _DEFS:
        if T.tracing():
            from crosshair.tracers import NoTracing
            with NoTracing():
                _DEFS[template] = shell.define(template)
        else:
            _DEFS[template] = shell.define(template)
    return _DEFS[template]

def _c25(template, specs, raws):
    Task = _define(template)
    flds = {f.name: f for f in get_fields(Task)}
    for s in specs:
        f = flds.get(s["name"])
        if f is None:
            return "template %r: field %s missing (fields %s)" % (template, s["name"], sorted(flds))
        if f.type != _expected_type(s):
            return "template %r: field %s has type %r, the template spells %r" % (template, s["name"], f.type, _expected_type(s))
        if s["kind"] == "out":
            if getattr(f, "path_template", None) != _expected_path_template(s):
                return "template %r: output %s has path template %r, the template spells %r" % (template, s["name"], getattr(f, "path_template", None), _expected_path_template(s))
            continue
        if "default" in s and not s.get("multi"):
            if f.default != s["default"]:
                return "template %r: field %s default %r, template says %r" % (template, s["name"], f.default, s["default"])
        if s.get("optional") and f.default is not None:
            return "template %r: optional field %s has default %r" % (template, s["name"], f.default)
    kwargs, values = {}, {}
    for s, raw in zip(specs, raws):
        if s["kind"] == "out":
            values[s["name"]] = None
            continue
        v = _value(s, raw)
        provided = v is not None and not (s.get("multi") and "default" in s and v == [])
        if s["kind"] == "flag":
            kwargs[s["name"]] = v
            values[s["name"]] = v
        elif v is None:
            values[s["name"]] = s.get("default")
        else:
            kwargs[s["name"]] = v
            values[s["name"]] = v
    t = Task(**kwargs)
    vals = {k: x for k, x in attrs.asdict(t, recurse=False).items() if not k.startswith("_")}
    if any(s["kind"] == "out" for s in specs):
        vals.update(template_update(t, cache_dir=Path.cwd()))          # as ShellTask.cmdline / Job.inputs do before building the argv
    got = list(t._command_args(values=vals))
    T.reach()
    want = _expected_argv(specs, values)
    if got != want:
        return "template %r with %r: argv %r, template order gives %r" % (template, kwargs, got, want)
    return None
'''


def build(tier, seed, exclude):
    g = Gen("C25", exclude)
    g.raw(HELPERS)
    quick = tier == "quick"
    rnd = random.Random(seed)
    nd = 24 if quick else 150
    to = 15 if quick else 60
    made = 0
    tries = 0
    while made < nd and tries < 2000:
        tries += 1
        tmpl, specs = gen_template(rnd, rnd.choice([1, 2, 3, 3, 4] if quick else [1, 2, 3, 4, 5, 6]))
        multis = [s for s in specs if s.get("multi")]
        if len(multis) > 1:
            continue
        params, pre, raws = [], [], []
        for s in specs:
            n = s["name"]
            if s["kind"] == "out":
                raws.append("None")
            elif s["kind"] == "flag":
                params.append(f"{n}: bool"); raws.append(n)
            elif s.get("multi"):
                lo = 0 if "default" in s else 1
                params.append(f"{n}: List[int]"); pre.append(f"{lo} <= len({n}) <= 2 and all(1 <= i < 9 for i in {n})"); raws.append(f"T.real(list({n}))")
            elif s.get("optional") or "default" in s:
                params.append(f"{n}: Optional[int]"); pre.append(f"({n} is None or 1 <= {n} < 9)"); raws.append(n)
            else:
                params.append(f"{n}: int"); pre.append(f"1 <= {n} < 9" if s.get("type") != "int" else f"{n} != 0"); raws.append(n)   # numeric zero: recorded finding C22-falsy-number
        d = made
        made += 1
        g.cond(f"h_tmpl{d:03d}", ", ".join(params), [" and ".join(pre) or "True"], f"""
            err = _c25({tmpl!r}, {specs!r}, [{", ".join(raws)}])
            return T.fail(err) if err else True
        """, timeout=to)
    g.cond("twin_c25", "fa: int", ["True"], """
        err = _c25("prog <fa:int>", [dict(name="fa", kind="pos", type="int")], [fa])
        return False
    """, timeout=30, kind="twin")
    return g.spec(bounds={"templates": made, "tokens per template": "1-4 (quick) / 1-6", "token kinds": KINDS})
