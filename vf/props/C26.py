"""C26 Output path templates resolve inside the job directory."""
from vf.core import Gen

META = dict(
    technique='solver-based bounded symbolic execution of the real code (CrossHair + z3), counterexample replay; one memoisation condition runs solver-chosen inputs outside the tracer (CrossHair skips functools.lru_cache)',
    functions_encoded=["pydra.compose.shell.templating.template_update", "template_update_single", "_template_formatting",
                       "_single_template_formatting", "_element_formatting", "pydra.compose.shell.task.ShellTask._command_args (h_argv_*)"],
    stubs=["output fields are typed fileformats.generic.File; nothing touches the file system (templates are resolved before execution)"],
    outside=["strings longer than 3 characters, more than 2 extensions", "callable path templates", "MultiOutputFile templates with list inputs "
             "beyond length 2", "copying of input files into the job directory (C34)"],
    assumptions=["'inside the job directory' = after lexical normalisation the path is a strict descendant of cache_dir"],
)

HELPERS = '''
import os
from pathlib import Path, PurePosixPath
from fileformats.generic import File
from pydra.compose import shell
import pydra.compose.shell.templating as TP
T.assert_repo(TP)

CACHE = Path("/cache/root/shell-abc123")

def _mk(template, keep_ext=True, in_type=str):
    return shell.define("prog", inputs={
        "name": shell.arg(type=in_type, argstr="", position=1),
        "n": shell.arg(type=int, argstr="-n", default=1),
        "x": shell.arg(type=float, argstr="-x", default=0.5),
    }, outputs={"out": shell.outarg(type=File, path_template=template, argstr="-o", keep_extension=keep_ext)}, name="Tmpl")

_T = {}
def _task(template, keep_ext=True, in_type=str):
    key = (template, keep_ext, in_type)
    if key not in _T:
        _T[key] = _mk(template, keep_ext, in_type)
    return _T[key]

def _inside(p):
    norm = os.path.normpath(str(p))
    base = str(CACHE)
    return norm.startswith(base + "/") and ".." not in PurePosixPath(str(p)).parts

def _resolve(template, keep_ext, in_type, **vals):
    t = _task(template, keep_ext, in_type)(**vals)
    return TP.template_update(t, cache_dir=CACHE).get("out")

def _c26(template, keep_ext, in_type, name, n=1, x=0.5):
    try:
        p1 = _resolve(template, keep_ext, in_type, name=name, n=n, x=x)
        p2 = _resolve(template, keep_ext, in_type, name=name, n=n, x=x)
    except Exception as e:
        T.reach()
        return None       # rejecting a value is allowed; resolving it outside the job directory is not
    T.reach()
    if p1 is None:
        return None
    if p1 != p2:
        return "template %r name=%r: two evaluations give %r and %r" % (template, name, p1, p2)
    if not _inside(p1):
        return "template %r name=%r n=%r: resolves to %r, not inside %s" % (template, name, n, str(p1), CACHE)
    return None

_EQV = [1, 1.0, True, 0, 0.0, -0.0, False, 2, 2.0]

_AnyT = {}
def _resolve_any(v):
    """template out_{v} with an untyped input"""
    import typing as ty
    if "t" not in _AnyT:
        _AnyT["t"] = shell.define("prog", inputs={"v": shell.arg(type=ty.Any, argstr="-v", position=1)},
                                  outputs={"out": shell.outarg(type=File, path_template="out_{v}.txt", argstr="-o")}, name="AnyT")
    return TP.template_update(_AnyT["t"](v=v), cache_dir=CACHE).get("out")

def _okname(s):
    return len(s) <= 3 and chr(0) not in s

def _degenerate(stem):
    """names for which the formatted template has no file-name component"""
    last = PurePosixPath(stem).name if stem else ""
    return stem == "" or last in ("", "..", ".") or stem.endswith("/") or stem.endswith("/.")
'''

TEMPLATES = [("{name}", True), ("{name}_out", True), ("out_{name}.txt", True), ("{name}_{n}", True), ("{name}_{x:.2f}", True),
             ("res/{name}", True), ("{name}", False)]


def build(tier, seed, exclude):
    g = Gen("C26", exclude)
    g.raw(HELPERS)
    quick = tier == "quick"
    to = 25 if quick else 120
    for k, (tmpl, keep) in enumerate(TEMPLATES):
        g.cond(f"h_str_{k}", "name: str, n: int", ["_okname(name) and len(name) >= 1 and 0 <= n < 1000"], f"""
            err = _c26({tmpl!r}, {keep}, str, name, n=n)
            return T.fail(err) if err else True
        """, timeout=to)
    # path-typed input: extension handling as declared
    g.cond("h_path_ext", "stem: str, e1: str, e2: str, keep: bool, two: bool",
           ["1 <= len(stem) <= 2 and 1 <= len(e1) <= 2 and 1 <= len(e2) <= 2",
            "all(c not in stem + e1 + e2 for c in ('/', '.', chr(0)))"], """
        keep = T.real(keep)                                   # the task class is cached per (template, keep): no symbolic value may get into it
        stem, e1, e2, two = T.real((stem, e1, e2, two))
        ext = [e1] + ([e2] if two else [])
        fname = ".".join([stem] + ext)
        try:
            p = _resolve("{name}_out", keep, Path, name=Path("/data/in") / fname)
        except Exception:
            T.reach()
            return True
        T.reach()
        want = stem + "_out" + ("." + ".".join(ext) if keep else "")
        if not _inside(p) or p.name != want:
            return T.fail(lambda: "input %r keep_extension=%s: output %r, expected %s/%s" % (fname, keep, str(p), CACHE, want))
        return True
    """, timeout=to)
    # two-input templates: a file followed by a number (whose text may contain a dot), extension kept or dropped as declared
    g.raw("""
    _T2 = ["{name}_thr{x}", "{name}_{x:.2f}", "{name}_{n}", "{name}_{x:.1f}_{n}"]
    _XS = [0.5, 2.0, 0.25, 10.0]
    """)
    g.cond("h_path_ext_two_inputs", "ti: int, stem: str, e1: str, e2: str, keep: bool, two: bool, xi: int, n: int",
           ["0 <= ti < 4 and 0 <= xi < 4 and 0 <= n < 100 and 1 <= len(stem) <= 2 and 1 <= len(e1) <= 2 and 1 <= len(e2) <= 2",
            "all(c not in stem + e1 + e2 for c in ('/', '.', chr(0)))"], """
        stem, e1, e2, n = T.real((stem, e1, e2, n))          # name parts: realised (the solver picks them; the comparison below is concrete)
        keep, two = T.real(keep), T.real(two)                 # the task class is cached per (template, keep): no symbolic value may get into it
        tmpl, x = _T2[T.real(ti)], _XS[T.real(xi)]
        ext = [e1] + ([e2] if two else [])
        fname = ".".join([stem] + ext)
        try:
            p = _resolve(tmpl, keep, Path, name=Path("/data/in") / fname, x=x, n=n)
        except Exception:
            T.reach()
            return True
        T.reach()
        want = tmpl.format(name=stem, x=x, n=n) + ("." + ".".join(ext) if keep else "")
        if not _inside(p) or p.name != want:
            return T.fail(lambda: "template %r, input %r, x=%r n=%r keep_extension=%s: output %r, expected %s/%s" % (tmpl, fname, x, n, keep, str(p), CACHE, want))
        return True
    """, timeout=to * 3)
    # explicitly supplied output path is used as given
    g.cond("h_explicit", "a: str, b: str", ["1 <= len(a) <= 2 and 1 <= len(b) <= 2", "all(c not in a + b for c in ('/', chr(0))) and a not in ('.', '..') and b not in ('.', '..')"], """
        given = Path("/elsewhere") / a / b
        t = _task("{name}_out", True, str)(name="x", out=given)
        got = TP.template_update(t, cache_dir=CACHE).get("out")
        T.reach()
        if got != given:
            return T.fail(lambda: "explicit out=%r resolved to %r" % (str(given), got))
        return True
    """, timeout=to)
    # the path is a function of the input values only: ==-equal values of different type, resolved one after the other in one process
    g.cond("h_equal_values_sequence", "i: int, j: int", ["0 <= i < 9 and 0 <= j < 9"], """
        a, b = _EQV[T.real(i)], _EQV[T.real(j)]
        # CrossHair skips functools caches while tracing (libimpl/functoolslib), which would hide memoisation defects:
        # the two resolutions run outside the tracer, on the pool indices the solver picked
        from crosshair.tracers import NoTracing
        with NoTracing():
            pa, pb = _resolve_any(a), _resolve_any(b)
        T.reach()
        for v, p in ((a, pa), (b, pb)):
            want = "out_%s.txt" % (v,)
            if p is None or p.name != want:
                return T.fail(lambda: "template out_{v}.txt with v=%r (after resolving %r in the same process) gives %r, expected %r" % (v, a, p, want))
        return True
    """, timeout=to)
    g.cond("twin_c26", "name: str", ["1 <= len(name) <= 2"], """
        err = _c26("{name}_out", True, str, name)
        return False
    """, timeout=30, kind="twin")
    g.witness("w_dotdot", """
        err = _c26("{name}", True, str, "..")
        return T.fail(err) if err else True
    """)
    return g.spec(bounds={"templates": [t for t, _ in TEMPLATES], "name": "1-3 chars, all of Unicode except NUL", "n": "0..999",
                          "extensions": "0-2 of 1-2 chars"})
