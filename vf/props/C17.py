"""C17 Workflow results do not depend on worker or schedule."""
from vf.core import Gen
from vf.props.C14 import HELPERS

META = dict(
    functions_encoded=["pydra.engine.submitter.Submitter.expand_workflow (sequential)", "Submitter.expand_workflow_async", "get_runnable_tasks",
                       "NodeExecution.*", "pydra.workers.debug.DebugWorker.run", "pydra.engine.lazy.LazyOutField._get_value",
                       "pydra.compose.workflow.WorkflowOutputs._from_job"],
    stubs=["vf/hl/sched.py (FakeAsyncio, FakeLoop, ScriptedWorker)", "vf/engine.py"],
    outside=["the real process pool (pickling to child processes, OS scheduling, 1-8 processes): the claim is independence of completion "
             "order and concurrency limit under the cooperative model", "more than 8 schedule decisions"],
    assumptions=["as C14"],
)
NS = 6


def build(tier, seed, exclude):
    g = Gen("C17", exclude)
    g.raw(HELPERS)
    g.raw('''
    import vf.engine as E, vf.rec as R
    from vf.hl import engdefs as D, sched as S

    _WF = {
        "indep": (lambda n: D.IndepChains(x=1), ["f", "m"]),
        "forkjoin": (lambda n: D.ForkJoin(x=1), ["j", "t"]),
        "split": (lambda n: D.SplitAndChain(xs=[5, 6, 5][:n]), ["sp", "m"]),
        "splitcomb": (lambda n: D.SplitCombine(xs=[5, 6, 5][:n], ys=[1, 2][:max(n - 1, 1)]), ["tot", "pairs"]),
    }

    def _c17(shape, n, choices, k):
        mk, outs = _WF[shape]
        S.install()
        E.reset(); R.clear(); S.reset()
        d1 = E.scratch()
        try:
            ref = mk(n)(cache_root=d1, worker="debug")
        finally:
            E.cleanup(d1)
        ref = {o: getattr(ref, o) for o in outs}
        E.reset(); R.clear()
        d2 = E.scratch()
        try:
            res, err, ev = S.run_async(mk(n), d2, choices, k)
        finally:
            E.cleanup(d2)
        T.reach()
        desc = "%s n=%d schedule %s max_concurrent %s" % (shape, n, list(choices), k)
        if err is not None:
            return "%s: asynchronous run failed (%r) while the sequential run gives %r" % (desc, err, ref)
        got = {o: getattr(res.outputs, o) for o in outs}
        if got != ref:
            return "%s: outputs %r differ from the sequential worker's %r" % (desc, got, ref)
        return None
    ''')
    quick = tier == "quick"
    to = 110 if quick else 600
    # one condition per shape and concurrency limit; the schedule code is realised first, so the split length varies fastest
    params = "sd: int, n: int"
    pre = [f"0 <= sd < {4 ** NS}", "0 <= n <= 3"]
    ch = f"AP.S.decode(sdr, {NS}, 4)"
    for shape in ("indep", "forkjoin", "split", "splitcomb"):
        for kk in (0, 1, 2, 3):
            if shape in ("indep", "forkjoin"):
                # no split in these shapes: the schedule is the only variable
                g.cond(f"h_{shape}_k{kk}", "sd: int", pre[:1], f"""
                    sdr = T.real(sd)
                    err = _c17({shape!r}, 1, {ch}, {None if kk == 0 else kk})
                    return T.fail(err) if err else True
                """, timeout=to)
                continue
            g.cond(f"h_{shape}_k{kk}", params, pre, f"""
                sdr = T.real(sd)
                err = _c17({shape!r}, T.real(n), {ch}, {None if kk == 0 else kk})
                return T.fail(err) if err else True
            """, timeout=to)
    g.cond("twin_c17", "c0: int", ["0 <= c0 < 2"], """
        err = _c17("indep", 1, [T.real(c0)], None)
        return False
    """, timeout=120, kind="twin")
    return g.spec(bounds={"shapes": ["indep", "forkjoin", "split (split node + chain)", "splitcomb (two splits, outer product, combine)"],
                          "schedule": f"{NS} four-way decisions", "max_concurrent": "unlimited, 1..3", "split lengths": "0-3"})
