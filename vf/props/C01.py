"""C01 Split expands to exactly the outer/inner product of the split inputs."""
import itertools
import random

from vf.core import Gen
from vf.oracles import split as S

META = dict(
    functions_encoded=["pydra.engine.state.State.__init__", "State.prepare_states", "State.prepare_states_ind",
                       "State.prepare_states_val", "State.splits", "State._processing_terms", "State._single_op_splits",
                       "splitter2rpn", "_ordering", "_iterate_list", "iter_splits", "map_splits", "input_shape", "flatten",
                       "pydra.compose.base.task.Task.split", "pydra.engine.submitter.Submitter.__call__ (L2 conditions)"],
    stubs=["L1 conditions: none (State is pure)", "L2 conditions: see vf/engine.py (real file system in a scratch directory, logical clock)"],
    outside=["more than 4 split fields, lists longer than 3 (L1) / 2 (L2)", "non-list iterables", "real process-pool workers (C17 covers schedules)", "element kinds beyond: distinct ints, a duplicate, a None element, falsy elements (0, '', False), list/tuple-valued elements"],
    assumptions=["when two operands of an inner product have the same number of elements but different nested shape pydra may reject "
                 "(the property promises rejection for different lengths, not acceptance for odd shapes)"],
)

HELPERS = '''
import copy
from pydra.engine import state as ST
from vf.oracles import split as S
T.assert_repo(ST)

def _l1(tree, vals):
    """run the real State on `tree` and compare with the reference expansion"""
    lens = {f: len(v) for f, v in vals.items()}
    verdict, want = "accept", None
    try:
        want = S.expand(tree, lens)
        S.shape(tree, lens)
    except S.Reject:
        verdict = "reject"
    except S.MayReject:
        verdict = "may"
    got = gind = None
    err = None
    try:
        st = ST.State("N", splitter=copy.deepcopy(S.prefix(tree, "N")))
        st.prepare_states(inputs={"N." + f: v for f, v in vals.items()})
        got, gind = st.states_val, st.states_ind
    except Exception as e:
        err = e
    T.reach()
    if verdict == "reject":
        if got is not None:
            return "inner product of different lengths accepted: %d states" % len(got)
        return None
    if got is None:
        if verdict == "may":
            return None
        return "well-formed split rejected: %r" % (err,)
    if len(got) != len(want):
        return "%d states, reference has %d" % (len(got), len(want))
    for k in range(len(want)):
        for f, i in want[k].items():
            if gind[k]["N." + f] != i:
                return "state %d: index of %s is %r, reference %r" % (k, f, gind[k]["N." + f], i)
            if not (got[k]["N." + f] == vals[f][i]):
                return "state %d: value of %s is %r, reference element %d" % (k, f, got[k]["N." + f], i)
        if len(got[k]) != len(want[k]):
            return "state %d has keys %s" % (k, sorted(got[k]))
    return None
'''


def shapes(tier, seed):
    rnd = random.Random(seed)
    out = ["a"]
    out += S.trees(["a", "b"]) + S.trees(["b", "a"])
    three = []
    for perm in itertools.permutations(["a", "b", "c"]):
        three += S.trees(list(perm))
    four = []
    for perm in itertools.permutations(["a", "b", "c", "d"]):
        four += S.trees(list(perm))
    if tier == "quick":
        out += S.trees(["a", "b", "c"]) + rnd.sample(three, 14) + rnd.sample(four, 16)
    else:
        out += three + rnd.sample(four, 150)
    seen, uniq = set(), []
    for t in out:
        if repr(t) not in seen:
            seen.add(repr(t))
            uniq.append(t)
    return uniq


def build(tier, seed, exclude):
    g = Gen("C01", exclude)
    g.raw(HELPERS)
    quick = tier == "quick"
    to = 15 if quick else 60
    for t in shapes(tier, seed):
        fs = sorted(set(S.fields(t)))
        maxlen = 3 if len(fs) <= 3 else 2
        params = ", ".join(f"{f}: List[int]" for f in fs)
        pre = [" and ".join(f"len({f}) <= {maxlen}" for f in fs)]
        g.cond("h_l1_" + S.tree_name(t), params, pre, f"""
            vals = {{{", ".join(f'"{f}": list({f})' for f in fs)}}}
            err = _l1({t!r}, vals)
            return T.fail(err) if err else True
        """, timeout=to)
    # L2: the same question through Task.split + Submitter + debug worker (lengths symbolic, data tokens)
    g.raw("from vf.hl import splitrun as SR")
    l2 = ["a", ["a", "b"], ("a", "b"), [("a", "b"), "c"], ("a", ["b", "c"]), (["a", "b"], ["c", "d"])]
    if not quick:
        l2 += S.trees(["a", "b", "c"]) + [["a", ("b", ["c", "d"])], (("a", "b"), ("c", "d")), [["a", "b"], ["c", "d"]]]
    for t in l2:
        fs = sorted(set(S.fields(t)))
        params = ", ".join(f"n{f}: int" for f in fs) + ", dup: bool"
        pre = [" and ".join(f"0 <= n{f} <= 2" for f in fs)]
        g.cond("h_l2_" + S.tree_name(t), params, pre, f"""
            err = SR.l2_split({t!r}, T.real({{{", ".join(f'"{f}": n{f}' for f in fs)}}}), T.real(dup), 7)
            return T.fail(err) if err else True
        """, timeout=(60 if quick else 300))
        if t in ("a", ["a", "b"], ("a", "b")):
            for tok in (1, 2, 3):         # element kinds: None / falsy / container-valued elements
                pre2 = [" and ".join(f"1 <= n{f} <= 2" for f in fs)]
                g.cond(f"h_l2tok{tok}_" + S.tree_name(t), ", ".join(f"n{f}: int" for f in fs), pre2, f"""
                    err = SR.l2_split({t!r}, T.real({{{", ".join(f'"{f}": n{f}' for f in fs)}}}), False, 7, tok={tok})
                    return T.fail(err) if err else True
                """, timeout=(60 if quick else 300))
    g.cond("twin_l2", "na: int", ["0 <= na <= 1"], """
        err = SR.l2_split("a", {"a": na}, False, 7)
        return err is not None
    """, timeout=90, kind="twin")
    g.cond("twin_l1", "a: List[int], b: List[int]", ["len(a) <= 2 and len(b) <= 2"], """
        err = _l1(["a", "b"], {"a": list(a), "b": list(b)})
        return err is not None
    """, timeout=30, kind="twin")
    return g.spec(bounds={"fields": "<= 4", "list length": "0-3 (0-2 with four fields)", "element values": "unbounded symbolic ints",
                          "shapes": "every nesting of [..]/(..) with arity 2-3 over <= 3 fields in every field order; seeded sample over 4 fields (quick)"})
