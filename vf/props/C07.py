"""C07 Identical computations map to the same cache identity in every session."""
from vf.core import Gen

META = dict(
    functions_encoded=["pydra.compose.base.task.Task._compute_hashes", "Task._checksum", "Task._hash", "bytes_repr_task",
                       "pydra.utils.hash.bytes_repr_set", "bytes_repr_dict", "bytes_repr_mapping_contents", "bytes_repr_seq",
                       "bytes_repr_type", "hash_single", "pydra.engine.job.Job.checksum / cache_dir (h_engine_roots)"],
    stubs=["IdealHash for blake2b", "OrdSet/OrdDict: iteration order as a symbolic permutation (stands for PYTHONHASHSEED and insertion order)",
           "h_engine_roots: vf/engine.py"],
    outside=["real cross-process pickling (C29, not applicable)", "containers longer than 3, nesting deeper than 2", "file inputs (C09)"],
    assumptions=["the only channels through which session, hash seed or insertion order reach the byte stream are the iteration orders of "
                 "sets/dicts (modelled) and id()-dependent values (not modelled)"],
)

HELPERS = '''
import typing as ty
import cloudpickle as cp
import pydra.utils.hash as H
import pydra.compose.base.task as BT
from pydra.compose import python, shell
from vf.hl import hashing as HH
from vf.hl import c07defs as D
T.assert_repo(H, BT)
HH.install()

def _two(mk1, mk2, what):
    HH.reset()
    c1, c2 = mk1()._checksum, mk2()._checksum
    T.reach()
    if c1 != c2:
        return "two tasks with the same definition and equal inputs get different identities (%s)" % (what,)
    return None
'''

DEFS = '''
"""task definitions for C06/C07 harnesses (module level so that they pickle by reference)"""
import typing as ty
from pydra.compose import python, shell


@python.define
def Any2(a: ty.Any, b: ty.Any = None) -> ty.Any:
    return a


@python.define
def Other2(a: ty.Any, b: ty.Any = None) -> ty.Any:
    return b


Xor = shell.define("prog", inputs={
    "p": shell.arg(type=str | None, argstr="-p", default=None),
    "q": shell.arg(type=str | None, argstr="-q", default=None),
    "r": shell.arg(type=str | None, argstr="-r", default=None),
}, xor=[["p", "q", None], ["q", "r"]], name="Xor")
'''


def build(tier, seed, exclude):
    import os
    path = "/verif/vf/hl/c07defs.py"
    if not os.path.exists(path) or open(path).read() != DEFS.lstrip("\n"):
        open(path, "w").write(DEFS.lstrip("\n"))
    g = Gen("C07", exclude)
    g.raw(HELPERS)
    quick = tier == "quick"
    to = 25 if quick else 120
    g.cond("h_dict_order", "k: Set[str], v0: int, v1: int, v2: int, p1: int, p2: int",
           ["len(k) <= 3 and all(len(s) <= 1 for s in k) and 0 <= p1 < 6 and 0 <= p2 < 6"], """
        keys = sorted(T.real(k))
        d = dict(zip(keys, [v0, v1, v2]))
        a, b = HH.OrdDict(d), HH.OrdDict(d)
        a._order, b._order = HH.permuted(list(d), p1), HH.permuted(list(d), p2)
        err = _two(lambda: D.Any2(a=a), lambda: D.Any2(a=b), "dict input %r in key orders %r / %r" % (d, a._order, b._order))
        return T.fail(err) if err else True
    """, timeout=to)
    g.cond("h_set_order", "e: Set[int], p1: int, p2: int, fz: bool", ["len(e) <= 3 and 0 <= p1 < 6 and 0 <= p2 < 6"], """
        elems = list(T.real(e))
        cls = HH.OrdFrozenSet if fz else HH.OrdSet
        a, b = cls(elems), cls(elems)
        a._order, b._order = HH.permuted(list(elems), p1), HH.permuted(list(elems), p2)
        err = _two(lambda: D.Any2(a=a), lambda: D.Any2(a=[b] if False else b), "set input %r in orders %r / %r" % (set(elems), a._order, b._order))
        return T.fail(err) if err else True
    """, timeout=to)
    g.cond("h_set_of_frozensets", "n: int, p1: int, p2: int, strs: bool", ["2 <= n <= 4 and 0 <= p1 < 24 and 0 <= p2 < 24"], """
        base = [frozenset(), frozenset([0]), frozenset([1]), frozenset([0, 1])]
        if strs:
            base = [frozenset(), frozenset(["a"]), frozenset(["b", None]), frozenset(["a", "b"])]
        elems = base[4 - T.real(n):]
        a, b = HH.OrdFrozenSet(elems), HH.OrdFrozenSet(elems)
        a._order, b._order = HH.permuted(list(elems), p1), HH.permuted(list(elems), p2)
        err = _two(lambda: D.Any2(a=a), lambda: D.Any2(a=b), "frozenset of frozensets %r in orders %r / %r" % (elems, a._order, b._order))
        return T.fail(err) if err else True
    """, timeout=to * 2)
    g.cond("h_dict_mixed_keys_order", "n: int, p1: int, p2: int, off: int", ["2 <= n <= 4 and 0 <= p1 < 24 and 0 <= p2 < 24 and 0 <= off < 4"], """
        pool = [1, "1", None, "None", 2.5, "a", "2.5"]
        keys = pool[T.real(off):T.real(off) + T.real(n)]
        items = [(k, i) for i, k in enumerate(keys)]
        d1 = dict(HH.permuted(items, p1))
        d2 = dict(HH.permuted(items, p2))
        err = _two(lambda: D.Any2(a=d1), lambda: D.Any2(a=d2), "dict with keys %r built in insertion orders %r / %r" % (keys, list(d1), list(d2)))
        return T.fail(err) if err else True
    """, timeout=to)
    g.cond("h_session_history", "parent_first: bool, i: int", ["0 <= i < 3"], """
        # the identity of a task must not depend on which other task classes were hashed earlier in the session
        pool = ["x", "y1", "a.b"]
        def classes():
            P = shell.define("echo", inputs={"text": shell.arg(type=str, argstr="", position=1)}, name="Parent")
            C = shell.define("echo", inputs={"text": shell.arg(type=str, argstr="--{text}", position=1)}, bases=[P], name="Child")
            return P, C
        HH.reset()
        P1, C1 = classes()
        alone = C1(text=pool[T.real(i)])._checksum
        P2, C2 = classes()
        if T.real(parent_first):
            P2(text=pool[T.real(i)])._checksum
        after = C2(text=pool[T.real(i)])._checksum
        T.reach()
        if alone != after:
            return T.fail("the checksum of a derived task class depends on whether its base class was hashed earlier in the session")
        return True
    """, timeout=to)
    g.cond("h_nested_container_order", "v0: int, v1: int, p1: int, p2: int, q1: int, q2: int", ["0 <= p1 < 2 and 0 <= p2 < 2 and 0 <= q1 < 2 and 0 <= q2 < 2"], """
        def mk(p, q):
            inner = HH.OrdSet(["a", "b"]); inner._order = HH.permuted(["a", "b"], q)
            d = {"m": inner, "n": v0}
            o = HH.OrdDict(d); o._order = HH.permuted(["m", "n"], p)
            return [o, (v1,)]
        err = _two(lambda: D.Any2(a=mk(p1, q1)), lambda: D.Any2(a=mk(p2, q2)), "nested dict/set orders")
        return T.fail(err) if err else True
    """, timeout=to)
    # a task hashed *as a value* (what the submitter does with every split task): xor groups with None
    g.cond("h_task_as_value_xor", "sel: int, s: str", ["0 <= sel < 4 and len(s) <= 1"], """
        HH.reset()
        kw = [{"p": s}, {"q": s}, {"r": s}, {"p": s, "r": s}][T.real(sel)]
        try:
            h1 = HH.hs(D.Xor(**kw))
            h2 = HH.hs(D.Xor(**kw))
        except TypeError as e:
            T.reach()
            return T.fail(lambda: "a task with an xor group cannot be hashed as a value: %r" % (e,))
        T.reach()
        if h1 != h2:
            return T.fail("two equal Xor tasks hash differently")
        return True
    """, timeout=to)
    # pickling round trip of the task (in-process; cross-process is C29)
    g.cond("h_pickle_roundtrip", "i: int, j: int", ["0 <= i < 6 and 0 <= j < 6"], """
        pool = [1, "1", (1, 2), [1, 2], {"a": 1}, frozenset([1, 2])]
        t = D.Any2(a=pool[T.real(i)], b=pool[T.real(j)])
        HH.reset()
        c1 = t._checksum
        t2 = cp.loads(cp.dumps(t))
        c2 = t2._checksum
        T.reach()
        if c1 != c2:
            return T.fail(lambda: "checksum changes over a pickle round trip for inputs %r, %r" % (pool[i], pool[j]))
        return True
    """, timeout=to)
    # cache-root path and worker object do not enter the identity (engine level, concrete tokens)
    g.raw('''
    import vf.engine as E
    def _roots(n, second_worker):
        import os
        E.install_clock(); E.install_pickle()
        HH.uninstall()
        try:
            d1, d2 = E.scratch(), E.scratch() + "/deeper/root"
            os.makedirs(d2)
            names = []
            for d in (d1, d2):
                D.Any2(a=[1, 2][:n], b="t")(cache_root=d, worker="debug")
                names.append(sorted(x for x in os.listdir(d) if x.startswith("python-") and not x.endswith(".lock")))
            E.cleanup(d1); E.cleanup(d2.split("/deeper")[0])
        finally:
            HH.install()
        T.reach()
        if names[0] != names[1] or not names[0]:
            return "job directories differ between cache roots: %r vs %r" % (names[0], names[1])
        return None
    ''')
    g.cond("h_engine_roots", "n: int", ["0 <= n <= 2"], """
        err = _roots(T.real(n), False)
        return T.fail(err) if err else True
    """, timeout=90)
    g.cond("twin_c07", "p1: int", ["0 <= p1 < 2"], """
        a, b = HH.OrdSet([1, 2]), HH.OrdSet([1, 2])
        a._order, b._order = [1, 2], HH.permuted([1, 2], p1)
        err = _two(lambda: D.Any2(a=a), lambda: D.Any2(a=b), "x")
        return False
    """, timeout=30, kind="twin")
    return g.spec(bounds={"containers": "<= 3 elements", "nesting": "<= 2", "permutations": "all (symbolic permutation code)"})


def stage_b(fn, call):
    """end-to-end: the same value hashed in fresh interpreters with different PYTHONHASHSEED"""
    import subprocess, os
    code = ("from pydra.utils.hash import hash_function\n"
            "v = frozenset([frozenset(['a']), frozenset(['b']), frozenset(['a','b']), frozenset()])\n"
            "print(hash_function(v), hash_function({'b': {2, 1}, 'a': frozenset(['x','y','z'])}))")
    outs = set()
    for seed in range(4):
        env = dict(os.environ, PYTHONHASHSEED=str(seed), PYTHONPATH=os.environ.get("VF_REPO", "/repo"))
        outs.add(subprocess.run(["/verif/.venv/bin/python", "-c", code], env=env, capture_output=True, text=True).stdout.strip())
    if fn in ("h_set_of_frozensets", "h_set_order", "h_dict_order", "h_nested_container_order"):
        return {"reproduced": None, "hashseed_outputs": sorted(outs), "note": "seed sweep is informational for order conditions"}
    return None
