"""C32 Task definitions survive dictionary round trips."""
import random

from vf.core import Gen
from vf.hl import rules as RL
from vf.hl import shelldefs as SD

META = dict(
    functions_encoded=["pydra.utils.general.unstructure", "structure", "filter_out_defaults", "pydra.compose.shell.builder.define",
                       "pydra.compose.python.define", "ShellTask._command_args and Task._rule_violations on the re-created class"],
    stubs=[],
    outside=["workflow definitions (constructor functions are not value-serialisable)", "callable defaults / formatters", "File-typed fields"],
    assumptions=["the dictionary form is used as produced by unstructure (no JSON/YAML round trip in between)"],
)

HELPERS = '''
import attrs
from pydra.utils import general as GEN
from pydra.utils.general import get_fields, unstructure, structure
from vf.hl import shelldefs as SD
from vf.hl import rules as RL
T.assert_repo(GEN)

_META = ["name", "type", "default", "argstr", "position", "sep", "requires", "allowed_values", "help", "mandatory", "path_template", "keep_extension"]

def _fields_equal(c1, c2):
    f1 = {f.name: f for f in get_fields(c1)}
    f2 = {f.name: f for f in get_fields(c2)}
    if list(f1) != list(f2):
        return "field names %s vs %s" % (list(f1), list(f2))
    for n in f1:
        for a in _META:
            v1, v2 = getattr(f1[n], a, "<na>"), getattr(f2[n], a, "<na>")
            if not (v1 == v2):
                return "field %s.%s: %r vs %r" % (n, a, v1, v2)
    o1 = {f.name: (f.type, getattr(f, "default", None)) for f in get_fields(c1.Outputs)}
    o2 = {f.name: (f.type, getattr(f, "default", None)) for f in get_fields(c2.Outputs)}
    if o1 != o2:
        return "outputs %r vs %r" % (o1, o2)
    if getattr(c1, "_xor", None) != getattr(c2, "_xor", None):
        return "xor %r vs %r" % (c1._xor, c2._xor)
    return None

_RT = {}
def _roundtrip(cls):
    if cls not in _RT:
        _RT[cls] = structure(unstructure(cls))
    return _RT[cls]

def _shell_rt(cls, specs, raw):
    cls2 = _roundtrip(cls)
    err = _fields_equal(cls, cls2)
    if err:
        T.reach()
        return "re-created class differs: " + err
    vals = {s["name"]: SD.to_value(s, r) for s, r in zip(specs, raw)}
    a = []
    for c in (cls, cls2):
        t = c(**vals)
        values = {k: v for k, v in attrs.asdict(t, recurse=False).items() if not k.startswith("_")}
        try:
            a.append(list(t._command_args(values=values)))
        except Exception as e:
            a.append(("raised", type(e).__name__))
    T.reach()
    if a[0] != a[1]:
        return "values %r: original argv %r, re-created class gives %r" % (vals, a[0], a[1])
    return None

def _rules_rt(cls, spec, raw):
    cls2 = _roundtrip(cls)
    err = _fields_equal(cls, cls2)
    if err:
        T.reach()
        return "re-created class differs: " + err
    vals = {n: RL.to_value(k, r) for (n, k), r in zip(spec["fields"], raw)}
    v1 = bool(cls(**vals)._rule_violations())
    v2 = bool(cls2(**vals)._rule_violations())
    T.reach()
    if v1 != v2:
        return "values %r: original class rule violations %s, re-created %s" % (vals, v1, v2)
    return None
'''


def build(tier, seed, exclude):
    g = Gen("C32", exclude)
    g.raw(HELPERS)
    quick = tier == "quick"
    rnd = random.Random(seed)
    to = 15 if quick else 60
    nd = 14 if quick else 80
    for d in range(nd):
        specs = SD.gen_specs(rnd, rnd.choice([2, 3, 4]), compact=False)
        g.raw(f"_SPECS{d} = {specs!r}\n_TASK{d} = SD.make_task(_SPECS{d}, name='Gen{d}')")
        params = ", ".join(f"{s['name']}: {SD.annotation(s)}" for s in specs)
        pre = [" and ".join(SD.precondition(s, s["name"]) for s in specs)]
        raw = "[" + ", ".join(s["name"] for s in specs) + "]"
        g.cond(f"h_shell{d:03d}", params, pre, f"""
            err = _shell_rt(_TASK{d}, _SPECS{d}, {raw})
            return T.fail(err) if err else True
        """, timeout=to)
    made = 0
    while made < (8 if quick else 50):
        spec = RL.gen_rules(rnd, rnd.choice([3, 4, 5]))
        try:
            RL.make_task(spec, name="Probe")
        except Exception:
            continue
        d = made
        made += 1
        g.raw(f"_RSPEC{d} = {spec!r}\n_RTASK{d} = RL.make_task(_RSPEC{d}, name='Rules{d}')")
        params = ", ".join(f"{n}: {'bool' if k == 'bool' else 'int'}" for n, k in spec["fields"])
        pre = [" and ".join(f"0 <= {n} < 4" for n, k in spec["fields"] if k != "bool") or "True"]
        raw = "[" + ", ".join(n for n, _ in spec["fields"]) + "]"
        g.cond(f"h_rules{d:03d}", params, pre, f"""
            err = _rules_rt(_RTASK{d}, _RSPEC{d}, {raw})
            return T.fail(err) if err else True
        """, timeout=to)
    # optional (nullable) fields with and without a default: "mandatory but nullable" must survive the round trip
    g.raw("""
    import typing as ty
    from pydra.compose import python as _py, shell as _sh
    def _nullable_defs(kind, d0, d1, d2):
        mk = _py.arg if kind == 0 else _sh.arg
        def fld(tp, has_default, **kw):
            return mk(type=tp, **(dict(default=None) if has_default else {}), **kw)
        if kind == 0:
            def fn(fa, fb, fc):
                return 1
            return _py.define(fn, inputs={"fa": fld(ty.Optional[str], d0), "fb": fld(ty.Optional[int], d1), "fc": fld(ty.Optional[float], d2)},
                              outputs={"out": int}, name="Nul%d%d%d" % (d0, d1, d2))
        return _sh.define("prog", inputs={"fa": fld(ty.Optional[str], d0, argstr="-a"), "fb": fld(ty.Optional[int], d1, argstr="-b"),
                                          "fc": fld(ty.Optional[float], d2, argstr="-c")}, name="NulS%d%d%d" % (d0, d1, d2))
    def _nullable_rt(kind, d0, d1, d2, given):
        cls = _nullable_defs(kind, d0, d1, d2)
        cls2 = structure(unstructure(cls))
        err = _fields_equal(cls, cls2)
        T.reach()
        if err:
            return "optional fields with defaults %s: re-created class differs: %s" % ((d0, d1, d2), err)
        kw = {n: v for n, v, g in (("fa", "x", given & 1), ("fb", 2, given & 2), ("fc", 0.5, given & 4)) if g}
        out = []
        for c in (cls, cls2):
            try:
                t = c(**kw)
                t._check_resolved() if hasattr(t, "_check_resolved") else None
                out.append(("ok", sorted((k, v) for k, v in attrs.asdict(t, recurse=False).items() if k in ("fa", "fb", "fc"))))
            except Exception as e:
                out.append(("raises", type(e).__name__))
        if out[0] != out[1]:
            return "optional fields with defaults %s, given %s: original %r, re-created %r" % ((d0, d1, d2), sorted(kw), out[0], out[1])
        return None
    """)
    g.cond("h_nullable_without_default", "kind: int, d0: bool, d1: bool, d2: bool, given: int", ["0 <= kind <= 1 and 0 <= given < 8"], """
        err = _nullable_rt(T.real(kind), T.real(d0), T.real(d1), T.real(d2), T.real(given))
        return T.fail(err) if err else True
    """, timeout=to * 3)
    g.cond("twin_c32", "fa: bool", ["True"], """
        specs = [dict(kind="flag", argstr="-a", name="fa", position=None)]
        err = _shell_rt(SD.make_task(specs, name="Tw"), specs, [fa])
        return False
    """, timeout=30, kind="twin")
    return g.spec(bounds={"shell definitions": nd, "rule definitions": made, "values": "as C22 / C31"})
