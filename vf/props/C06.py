"""C06 A cache hit returns what executing the task now would return."""
from vf.core import Gen

META = dict(
    functions_encoded=["pydra.compose.base.task.Task._compute_hashes", "Task._checksum", "pydra.utils.hash.bytes_repr_function",
                       "bytes_repr_code", "bytes_repr_type (fields/outputs branch)", "bytes_repr_numpy", "bytes_repr_task",
                       "pydra.compose.shell.task.ShellTask._command_args (argv of the two variants)",
                       "pydra.engine.job.Job.run early return / load_result (h_engine_*)"],
    stubs=["IdealHash for blake2b: 'never share a cache entry' <=> the checksum byte streams differ", "h_engine_*: vf/engine.py, real blake2b"],
    outside=["globals referenced by a task function body", "non-determinism of the task itself", "one differing aspect per pair",
             "file-typed inputs (C09)"],
    assumptions=["a cache entry is shared exactly when the two tasks have the same checksum (Job.cache_dir = cache_root / checksum)"],
)

HELPERS = '''
import typing as ty
import attrs
import pydra.utils.hash as H
import pydra.compose.base.task as BT
from pydra.compose import python, shell
from pydra.utils.typing import MultiInputObj
from vf.hl import hashing as HH
T.assert_repo(H, BT)
HH.install()

def _mk_closure(k):
    def f(x: int) -> int:
        return x + k
    return f

def _mk_default(k):
    def f(x: int, y: int = k) -> int:
        return x + y
    return f

def _differ(t1, t2, what):
    HH.reset()
    c1, c2 = t1._checksum, t2._checksum
    T.reach()
    if c1 == c2:
        return "two tasks that run a different computation share a cache identity: %s" % (what,)
    return None

def _shell_variant(argstr="-a", position=1, sep=" ", executable="echo", formatter=None, typ=str):
    kw = dict(type=typ, position=position)
    if formatter is not None:
        kw["formatter"] = formatter
    else:
        kw["argstr"] = argstr
    if typ is not str:
        kw["sep"] = sep
    return shell.define(executable, inputs={"v": shell.arg(**kw), "w": shell.arg(type=str, argstr="-w", position=2 if position != 2 else 1)}, name="Var")

def _fmt1(v):
    return "--one " + str(v)

def _fmt2(v):
    return "--two " + str(v)

def _argv(t):
    values = {k: x for k, x in attrs.asdict(t, recurse=False).items() if not k.startswith("_")}
    return list(t._command_args(values=values))
'''


def build(tier, seed, exclude):
    g = Gen("C06", exclude)
    g.raw(HELPERS)
    quick = tier == "quick"
    to = 25 if quick else 120
    g.cond("h_closure_value", "k1: int, k2: int, x: int", ["k1 != k2"], """
        T1, T2 = python.define(_mk_closure(k1)), python.define(_mk_closure(k2))
        err = _differ(T1(x=x), T2(x=x), "function closes over k=%r vs k=%r (x=%r)" % (k1, k2, x))
        return T.fail(err) if err else True
    """, timeout=to)
    g.cond("h_default_value", "k1: int, k2: int, x: int", ["k1 != k2"], """
        T1, T2 = python.define(_mk_default(T.real(k1))), python.define(_mk_default(T.real(k2)))
        err = _differ(T1(x=x), T2(x=x), "default argument y=%r vs y=%r" % (k1, k2))
        return T.fail(err) if err else True
    """, timeout=to)
    g.cond("h_function_body", "x: int, which: int", ["0 <= which < 3"], """
        def f1(x: int) -> int:
            return x + 1
        def f2(x: int) -> int:
            return x + 2
        def f3(x: int) -> int:
            return x - 1
        fs = [f1, f2, f3]
        a, b = fs[T.real(which)], fs[(T.real(which) + 1) % 3]
        err = _differ(python.define(a)(x=x), python.define(b)(x=x), "different function bodies")
        return T.fail(err) if err else True
    """, timeout=to)
    # shell metadata: one aspect differs, the argv differs -> identity must differ
    aspects = {
        "argstr": ("dict(argstr='-a')", "dict(argstr='-b')"),
        "argstr_tmpl": ("dict(argstr='--v={v}')", "dict(argstr='--w={v}')"),
        "position": ("dict(position=1)", "dict(position=2)"),
        "sep": ("dict(sep=' ', typ=list[str])", "dict(sep=',', typ=list[str])"),
        "executable": ("dict(executable='echo')", "dict(executable='printf')"),
        "formatter": ("dict(formatter=_fmt1)", "dict(formatter=_fmt2)"),
        "repeat": ("dict(argstr='-a', typ=list[str])", "dict(argstr='-a...', typ=list[str])"),
    }
    for name, (k1, k2) in aspects.items():
        lst = name in ("sep", "repeat")
        g.cond(f"h_shell_{name}", "i: int, j: int", ["0 <= i < 4 and 0 <= j < 4"], f"""
            pool = ["x", "y1", "a.b", "/p"]
            v = [pool[T.real(i)], pool[T.real(j)]] if {lst} else pool[T.real(i)]
            A, B = _shell_variant(**{k1}), _shell_variant(**{k2})
            ta, tb = A(v=v, w=pool[T.real(j)]), B(v=v, w=pool[T.real(j)])
            if _argv(ta) == _argv(tb):
                return True      # same command line: sharing would be fine
            err = _differ(ta, tb, "shell field {name}: argv %r vs %r" % (_argv(ta), _argv(tb)))
            return T.fail(err) if err else True
        """, timeout=to)
    # a task class derived from another one and overriding only field metadata (parent hashed first / second)
    g.cond("h_shell_inherited", "child_first: bool, i: int", ["0 <= i < 4"], """
        pool = ["x", "y1", "a.b", "/p"]
        Parent = shell.define("echo", inputs={"text": shell.arg(type=str, argstr="", position=1)}, name="Parent")
        Child = shell.define("echo", inputs={"text": shell.arg(type=str, argstr="--{text}", position=1)}, bases=[Parent], name="Child")
        tp, tc = Parent(text=pool[T.real(i)]), Child(text=pool[T.real(i)])
        HH.reset()
        if T.real(child_first):
            c2, c1 = tc._checksum, tp._checksum
        else:
            c1, c2 = tp._checksum, tc._checksum
        T.reach()
        if _argv(tp) != _argv(tc) and c1 == c2:
            return T.fail(lambda: "derived task class with a different argstr shares its parent's identity: %r vs %r" % (_argv(tp), _argv(tc)))
        return True
    """, timeout=to)
    # input values: content / type (symbolic)
    g.cond("h_input_value", "x: int, y: int", ["x != y"], """
        from vf.hl import c07defs as D
        err = _differ(D.Any2(a=x), D.Any2(a=y), "input a=%r vs a=%r" % (x, y))
        return T.fail(err) if err else True
    """, timeout=to)
    g.cond("h_input_type", "x: int, s: str, sel: int", ["len(s) <= 2 and 0 <= sel < 5"], """
        from vf.hl import c07defs as D
        pairs = [(x, float(T.real(x))), (x, str(T.real(x))), ((x,), [x]), (s, s.encode()), (x != 0, int(x != 0))]
        u, v = pairs[T.real(sel)]
        err = _differ(D.Any2(a=u), D.Any2(a=v), "input %r (%s) vs %r (%s)" % (u, type(u).__name__, v, type(v).__name__))
        return T.fail(err) if err else True
    """, timeout=to)
    # an explicitly given output path (shell outarg) decides where the result is written and which path is returned
    g.raw("""
    from pathlib import Path as _P
    from fileformats.generic import File as _File
    _OutT = shell.define("touch", inputs={}, outputs={"out": shell.outarg(type=_File, path_template="default.txt", argstr="", position=1)}, name="OutT")
    """)
    g.cond("h_explicit_output_path", "a: str, b: str, default_second: bool", ["1 <= len(a) <= 2 and 1 <= len(b) <= 2 and a != b",
                                                                            "all(c not in a + b for c in ('/', chr(0))) and a not in ('.', '..') and b not in ('.', '..')"], """
        t1 = _OutT(out=_P("/elsewhere") / a)
        t2 = _OutT() if default_second else _OutT(out=_P("/elsewhere") / b)
        err = _differ(t1, t2, "explicit output path %r vs %s" % ("/elsewhere/" + a, "the template's default" if default_second else repr("/elsewhere/" + b)))
        return T.fail(err) if err else True
    """, timeout=to)
    g.cond("h_input_which_field", "x: int, y: int", ["x != y"], """
        from vf.hl import c07defs as D
        err = _differ(D.Any2(a=x, b=y), D.Any2(a=y, b=x), "values swapped between fields") or \\
            _differ(D.Any2(a=x, b=y), D.Other2(a=x, b=y), "different task functions with equal inputs")
        return T.fail(err) if err else True
    """, timeout=to)
    # engine level: submit t1 then t2 into one cache root; the second must execute (body count) unless the computation is the same
    g.raw('''
    import vf.engine as E, vf.rec as R
    def _mk_rec(k):
        def f(x: int) -> int:
            import vf.rec as R
            R.rec("clo", x, k)
            return x + k
        return f
    def _engine_share(k1, k2, x):
        HH.uninstall()
        E.install_clock(); E.install_pickle()
        try:
            E.reset(); R.clear()
            d = E.scratch()
            o1 = python.define(_mk_rec(k1))(x=x)(cache_root=d, worker="debug").out
            o2 = python.define(_mk_rec(k2))(x=x)(cache_root=d, worker="debug").out
            E.cleanup(d)
        finally:
            HH.install()
        T.reach()
        if o2 != x + k2:
            return "second submission (k=%r) was answered from the cache of the first (k=%r): got %r, executing now gives %r" % (k2, k1, o2, x + k2)
        return None
    ''')
    g.cond("h_engine_closure", "i: int, j: int", ["0 <= i < 3 and 0 <= j < 3"], """
        ks = [1, 100, -1]
        err = _engine_share(ks[T.real(i)], ks[T.real(j)], 1)
        return T.fail(err) if err else True
    """, timeout=120)
    g.cond("twin_c06", "k1: int, k2: int", ["k1 != k2"], """
        err = _differ(python.define(_mk_closure(k1))(x=0), python.define(_mk_closure(k2))(x=0), "x")
        return False
    """, timeout=30, kind="twin")
    return g.spec(bounds={"ints": "unbounded symbolic", "strings": "<= 2 or drawn from a pool of 4", "aspects": list(aspects) + ["closure", "default", "body", "input value/type"]})
