"""C39 Lmod environments add module settings to the caller's environment."""
from vf.core import Gen

META = dict(
    functions_encoded=["pydra.environments.lmod.Lmod.execute", "pydra.environments.lmod.Lmod.run_lmod_cmd", "pydra.environments.native.Native.execute",
                       "pydra.environments.base.execute", "pydra.environments.base.read_and_display",
                       "pydra.compose.shell.task.ShellTask._command_args"],
    stubs=["module/class-level containers of pydra.environments.{lmod,base,native} are restored to their import-time content at the start of every path (a path stands for a fresh process)", "subprocess as seen from pydra.environments.lmod: Popen is a simulated lmod executable whose `python load` output is built from symbolic names/values and from the caller environment at the time of the call (prepend_path semantics); MODULESHOME is set in the caller environment", "re.Pattern.findall: CrossHair realises its subject, replaced by the equivalent loop over the symbolic finditer (vf/chcompat.py)",
           "subprocess.run as seen from pydra.environments.base records argv and env and returns rc 0 (the process is not started)",
           "os.environ as seen from pydra.environments.lmod/base is a plain dict holding the symbolic caller environment",
           "stand-in Job object exposing task/name/inputs exactly as Job.inputs computes them for tasks without file inputs"],
    outside=["the lmod executable itself", "argv content (field values are drawn from a safe pool here; C22-C24 own the argv)", "values containing quote characters or newlines (they would not survive lmod's own python rendering)",
             "more than 3 caller variables / 3 module assignments; strings longer than 3 characters"],
    assumptions=["env=None passed to subprocess.run means 'inherit os.environ' (subprocess contract)"],
)

HELPERS = '''
import types, attrs
import pydra.environments.lmod as L
import pydra.environments.base as B
import pydra.environments.native as N
from pydra.compose import shell
from pydra.utils.general import attrs_values
T.assert_repo(L, B, N)
import vf.engine as E
_GUARD = E.StateGuard(L, L.Lmod, B, N, N.Native)

@shell.define
class Echo(shell.Task["Echo.Outputs"]):
    executable = "echo"
    text: str = shell.arg(argstr="", position=1)
    flag: bool = shell.arg(argstr="-n", default=False)
    class Outputs(shell.Outputs):
        pass

class _Job:
    def __init__(self, task):
        self.task, self.name = task, "j"
        self.inputs = {k: v for k, v in attrs_values(task).items() if not k.startswith("_")}

class _SP:
    PIPE = -1
    CompletedProcess = object
    def __init__(self, environ):
        self.calls, self.environ = [], environ
    def run(self, cmd, stdout=None, stderr=None, **kw):
        env = kw.get("env")
        eff = dict(self.environ) if env is None else dict(env)
        self.calls.append((list(cmd), eff))
        return types.SimpleNamespace(returncode=0, stdout=b"", stderr=b"")

class _OS:
    """`os` as seen by the environment modules: only environ differs"""
    def __init__(self, environ):
        self.environ = environ
    def __getattr__(self, k):
        import os
        return getattr(os, k)

_JOBS = {(t, f): _Job(Echo(text=t, flag=f)) for t in ("hi", "a", "x.y") for f in (False, True)}      # built once, outside the tracer
_NAMES = ["PATH", "HOME", "FOO", "LD_LIBRARY_PATH", "A"]

def _okv(v):
    return len(v) <= 3 and all(c not in v for c in ("'", '"', chr(10), chr(13), chr(92)))

class _Out(str):
    """what Popen.communicate returns: decode() hands the (possibly symbolic) text through"""
    def __new__(cls, text):
        o = str.__new__(cls, "")
        o.text = text
        return o
    def decode(self, *a):
        return self.text

class _LmodExe:
    """simulated lmod executable: `python load` prints one assignment per module setting, computed from the caller's
    environment at the time of the call (prepend_path prints the complete new value)"""
    PIPE = -1
    CalledProcessError = OSError
    def __init__(self, environ, assigns, dq):
        self.environ, self.assigns, self.dq, self.spawned = environ, assigns, dq, 0
    def Popen(self, cmd, stdout=None, stderr=None, **kw):
        self.spawned += 1
        q = '"' if self.dq else "'"
        src = ""
        for a in self.assigns:            # concatenation keeps symbolic values symbolic (%-formatting would realise them)
            k, v = a[0], a[1]
            if len(a) > 2 and a[2]:       # prepend_path
                old = self.environ.get(k)
                v = v if not old else v + ":" + old
            src = src + "os.environ[" + q + k + q + "] = " + q + v + q + ";\\n"
        src = src + "_mlstatus = True\\n"
        return types.SimpleNamespace(communicate=lambda: (_Out(src), _Out("")))

def _expected(caller, assigns):
    want = dict(caller)
    for a in assigns:
        k, v = a[0], a[1]
        if len(a) > 2 and a[2]:
            old = caller.get(k)
            v = v if not old else v + ":" + old
        want[k] = v
    return want

def _run(caller, assigns, dq, text, flag, steps=()):
    """caller: dict, assigns: list[(name, value[, prepend])], dq: quote style; steps: later (name, value) changes of the
    caller's environment, each followed by another execution with the same modules"""
    _GUARD.restore()
    caller["MODULESHOME"] = "/opt/lmod"
    sp = _SP(caller)
    exe = _LmodExe(caller, assigns, dq)
    saved = (L.sp, B.sp, L.os, B.os)
    L.sp, B.sp = exe, sp
    L.os = B.os = _OS(caller)
    wants = []
    try:
        job = _JOBS[(text, bool(flag))]
        env = L.Lmod(modules=["m"])
        env.execute(job)
        wants.append(_expected(caller, assigns))
        N.Native().execute(job)
        for k, v in steps:
            caller[k] = v
            L.Lmod(modules=["m"]).execute(job)
            wants.append(_expected(caller, assigns))
    finally:
        L.sp, B.sp, L.os, B.os = saved
    return sp.calls, wants
'''


def build(tier, seed, exclude):
    g = Gen("C39", exclude)
    g.raw(HELPERS)
    to = 30 if tier == "quick" else 150
    body = """
        text = ["hi", "a", "x.y"][ti]
        caller = {_NAMES[i0]: c0}
        if i1 != i0:
            caller[_NAMES[i1]] = c1
        assigns = [(_NAMES[j0], v0)] + ([(_NAMES[j1], v1)] if two else [])
        calls, wants = _run(caller, assigns, dq, text, flag)
        T.reach()
        (argv_l, env_l), (argv_n, env_n) = calls
        if argv_l != argv_n:
            return T.fail(lambda: f"argv differs: lmod {argv_l} native {argv_n}")
        if env_l != wants[0]:
            return T.fail(lambda: f"caller env {caller}, module sets {assigns}: process env {env_l}, expected {wants[0]}")
        return True
    """
    hist = """
        caller = {"PATH": "/usr/bin", "HOME": "/root", "FOO": "f"}
        assigns = [(_NAMES[j0], "/opt/m/bin", bool(pre0)), ("A", "1", False)]
        steps = [(_NAMES[k1], w1)] + ([(_NAMES[k2], w2)] if two else [])
        calls, wants = _run(caller, assigns, dq, "hi", False, steps)
        T.reach()
        envs = [calls[0][1]] + [c[1] for c in calls[2:]]
        for n, (got, want) in enumerate(zip(envs, wants)):
            if got != want:
                return T.fail(lambda: f"modules {assigns}, caller changes {steps}: execution {n} ran in {got}, expected {want}")
        return len(envs) == len(wants)
    """
    g.cond("h_lmod_env", "i0: int, i1: int, c0: str, j0: int, j1: int, v0: str, two: bool, dq: bool",
           ["0 <= i0 < 5 and 0 <= i1 < 5 and 0 <= j0 < 5 and 0 <= j1 < 5", "len(c0) <= 2 and len(v0) <= 2 and _okv(c0) and _okv(v0)"],
           "c1, v1, ti, flag = '/root', 'b:c', 1, True\n" + body.replace("\n        ", "\n"), timeout=to * 3)
    g.cond("h_lmod_env_idx", "i0: int, i1: int, j0: int, j1: int, two: bool, dq: bool, flag: bool",
           ["0 <= i0 < 5 and 0 <= i1 < 5 and 0 <= j0 < 5 and 0 <= j1 < 5"],
           "c0, c1, v0, v1, ti = '/usr/bin', '/root', 'x:y', '', 0\n" + body.replace("\n        ", "\n"), timeout=to)
    # one module value / one caller value left symbolic, everything else fixed (the solver has to find the characters that matter)
    g.cond("h_lmod_value", "v0: str, dq: bool", ["_okv(v0)"],
           "i0, i1, j0, j1, c0, c1, v1, two, ti, flag = 0, 1, 2, 0, '/usr/bin', '/root', '/opt/m/bin:/usr/bin', True, 0, False\n" + body.replace("\n        ", "\n"), timeout=to * 3)
    g.cond("h_lmod_caller_value", "c0: str, i0: int, dq: bool", ["_okv(c0) and 0 <= i0 < 5"],
           "i1, j0, j1, c1, v0, v1, two, ti, flag = 1, 2, 0, '/root', 'x', '/opt/m/bin', True, 0, False\n" + body.replace("\n        ", "\n"), timeout=to)
    # histories: the caller's environment changes between executions with the same modules
    g.cond("h_lmod_history", "j0: int, pre0: bool, k1: int, w1: str, k2: int, w2: str, two: bool, dq: bool",
           ["0 <= j0 < 5 and 0 <= k1 < 5 and 0 <= k2 < 5", "_okv(w1) and _okv(w2)"], hist, timeout=to)
    g.cond("twin_lmod", "i0: int, dq: bool", ["0 <= i0 < 5"], """
        calls, wants = _run({_NAMES[i0]: "v"}, [("FOO", "1")], dq, "hi", False)
        T.reach()
        return len(calls) != 2
    """, timeout=30, kind="twin")
    return g.spec(bounds={"caller variables": "1-2 of 5 names, values <= 3 chars", "module assignments": "1-2, both quote styles",
                          "task": "echo with one str field and one flag"})
