"""C39 Lmod environments add module settings to the caller's environment."""
from vf.core import Gen

META = dict(
    functions_encoded=["pydra.environments.lmod.Lmod.execute", "pydra.environments.native.Native.execute",
                       "pydra.environments.base.execute", "pydra.environments.base.read_and_display",
                       "pydra.compose.shell.task.ShellTask._command_args"],
    stubs=["Lmod.run_lmod_cmd returns a scripted `lmod python load` output (assignment lines built from symbolic names/values)",
           "subprocess.run as seen from pydra.environments.base records argv and env and returns rc 0 (the process is not started)",
           "os.environ as seen from pydra.environments.lmod/base is a plain dict holding the symbolic caller environment",
           "stand-in Job object exposing task/name/inputs exactly as Job.inputs computes them for tasks without file inputs"],
    outside=["the lmod executable itself", "argv content (field values are drawn from a safe pool here; C22-C24 own the argv)", "values containing quote characters or newlines (they would not survive lmod's own python rendering)",
             "more than 3 caller variables / 3 module assignments; strings longer than 3 characters"],
    assumptions=["env=None passed to subprocess.run means 'inherit os.environ' (subprocess contract)"],
)

HELPERS = '''
import types, attrs
import pydra.environments.lmod as L
import pydra.environments.base as B
import pydra.environments.native as N
from pydra.compose import shell
from pydra.utils.general import attrs_values
T.assert_repo(L, B, N)

@shell.define
class Echo(shell.Task["Echo.Outputs"]):
    executable = "echo"
    text: str = shell.arg(argstr="", position=1)
    flag: bool = shell.arg(argstr="-n", default=False)
    class Outputs(shell.Outputs):
        pass

class _Job:
    def __init__(self, task):
        self.task, self.name = task, "j"
        self.inputs = {k: v for k, v in attrs_values(task).items() if not k.startswith("_")}

class _SP:
    PIPE = -1
    CompletedProcess = object
    def __init__(self, environ):
        self.calls, self.environ = [], environ
    def run(self, cmd, stdout=None, stderr=None, **kw):
        env = kw.get("env")
        eff = dict(self.environ) if env is None else dict(env)
        self.calls.append((list(cmd), eff))
        return types.SimpleNamespace(returncode=0, stdout=b"", stderr=b"")

class _OS:
    """`os` as seen by the environment modules: only environ differs"""
    def __init__(self, environ):
        self.environ = environ
    def __getattr__(self, k):
        import os
        return getattr(os, k)

_NAMES = ["PATH", "HOME", "FOO", "LD_LIBRARY_PATH", "A"]

def _okv(v):
    return len(v) <= 3 and all(c not in v for c in ("'", '"', chr(10), chr(13), chr(92)))

def _run(caller, assigns, dq, text, flag):
    """caller: dict, assigns: list[(name, value)], dq: quote style"""
    q = '"' if dq else "'"
    src = "".join("os.environ[%s%s%s] = %s%s%s;\\n" % (q, k, q, q, v, q) for k, v in assigns)
    sp = _SP(caller)
    saved = (L.Lmod.run_lmod_cmd, B.sp, L.os, B.os)
    L.Lmod.run_lmod_cmd = classmethod(lambda cls, *a: src)
    B.sp = sp
    L.os = B.os = _OS(caller)
    try:
        job = _Job(Echo(text=text, flag=flag))
        L.Lmod(modules=["m"]).execute(job)
        N.Native().execute(job)
    finally:
        L.Lmod.run_lmod_cmd, B.sp, L.os, B.os = saved
    return sp.calls
'''


def build(tier, seed, exclude):
    g = Gen("C39", exclude)
    g.raw(HELPERS)
    to = 30 if tier == "quick" else 150
    body = """
        text = ["hi", "a", "x.y"][ti]
        caller = {_NAMES[i0]: c0}
        if i1 != i0:
            caller[_NAMES[i1]] = c1
        assigns = [(_NAMES[j0], v0)] + ([(_NAMES[j1], v1)] if two else [])
        calls = _run(caller, assigns, dq, text, flag)
        T.reach()
        (argv_l, env_l), (argv_n, env_n) = calls
        if argv_l != argv_n:
            return T.fail(lambda: f"argv differs: lmod {argv_l} native {argv_n}")
        want = dict(caller)
        for k, v in assigns:
            want[k] = v
        if env_l != want:
            return T.fail(lambda: f"caller env {caller}, module sets {assigns}: process env {env_l}, expected {want}")
        return True
    """
    pre = ["0 <= i0 < 5 and 0 <= i1 < 5 and 0 <= j0 < 5 and 0 <= j1 < 5",
           "_okv(c0) and _okv(c1) and _okv(v0) and _okv(v1)", "0 <= ti < 3"]
    g.cond("h_lmod_env", "i0: int, i1: int, c0: str, c1: str, j0: int, j1: int, v0: str, v1: str, two: bool, dq: bool, ti: int, flag: bool",
           pre, body, timeout=to)
    g.cond("h_lmod_env_idx", "i0: int, i1: int, j0: int, j1: int, two: bool, dq: bool, flag: bool",
           ["0 <= i0 < 5 and 0 <= i1 < 5 and 0 <= j0 < 5 and 0 <= j1 < 5"],
           "c0, c1, v0, v1, ti = '/usr/bin', '/root', 'x:y', '', 0\n" + body.replace("\n        ", "\n"), timeout=to)
    g.cond("twin_lmod", "i0: int, dq: bool", ["0 <= i0 < 5"], """
        calls = _run({_NAMES[i0]: "v"}, [("FOO", "1")], dq, "t", False)
        T.reach()
        return len(calls) != 2
    """, timeout=30, kind="twin")
    return g.spec(bounds={"caller variables": "1-2 of 5 names, values <= 3 chars", "module assignments": "1-2, both quote styles",
                          "task": "echo with one str field and one flag"})
