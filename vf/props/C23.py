"""C23 Field values reach the command intact."""
from vf.core import Gen

META = dict(
    functions_encoded=["pydra.compose.shell.task.ShellTask._command_args", "_command_pos_args", "_format_arg", "split_cmd",
                       "pydra.compose.shell.templating.argstr_formatting"],
    stubs=[],
    outside=["strings longer than 3 (quick) / 4 (thorough) characters", "formatter callables", "File-typed fields (need real files)"],
    assumptions=["'verbatim inside the argument built by its argstr or separator' is checked as exact equality with the argument the "
                 "documented construction gives (flag + value, template with the value substituted, elements joined by the separator)"],
)

HELPERS = '''
import attrs
from pathlib import Path
from pydra.compose import shell
from pydra.utils.typing import MultiInputObj
import pydra.compose.shell.task as STK
T.assert_repo(STK)

_Str = shell.define("prog", inputs={
    "plain": shell.arg(type=str | None, argstr="-x", default=None),
    "bare": shell.arg(type=str | None, argstr="", default=None, position=1),
    "tmpl": shell.arg(type=str | None, argstr="--t={tmpl}", default=None),
    "lsp": shell.arg(type=list[str] | None, argstr="-l", sep=" ", default=None),
    "lcomma": shell.arg(type=list[str] | None, argstr="-c", sep=",", default=None),
    "lrep": shell.arg(type=list[str] | None, argstr="-r...", default=None),
    "multi": shell.arg(type=MultiInputObj[str] | None, argstr="-m", default=None),
    "path": shell.arg(type=Path | None, argstr="-p", default=None),
    "lreptmpl": shell.arg(type=list[str] | None, argstr="-i {lreptmpl}...", default=None),
}, name="StrTask")

_EXPECT = {
    "plain": lambda s: ["prog", "-x", s],
    "bare": lambda s: ["prog", s],
    "tmpl": lambda s: ["prog", "--t=" + s],
    "lsp": lambda s: ["prog", "-l", s, "b"],
    "lcomma": lambda s: ["prog", "-c", s + ",b"],
    "lrep": lambda s: ["prog", "-r", s, "-r", "b"],
    "multi": lambda s: ["prog", "-m", s, "-m", "b"],
    "path": lambda s: ["prog", "-p", s],
    "lreptmpl": lambda s: ["prog", "-i", s, "-i", "b", "-i", s],
}

def _special(s, field="plain"):
    """the recorded class C23-retokenised: characters shlex treats specially (blank, tab, CR, LF, quotes, backslash) and, for
    templated argstrs, leading/trailing whitespace of any kind (str.strip)"""
    if any(c in (" ", chr(9), chr(10), chr(13), "'", '"', chr(92)) for c in s):
        return True
    return field in ("tmpl", "lreptmpl") and s != s.strip()

def _bracket(s, field="tmpl"):
    """the recorded class C23-bracket-cleanup: what argstr_formatting re-interprets in a templated argstr: format braces, the
    '[,' / ',]' clean-up and (when the template has a blank before the value) a leading ']'"""
    if "{" in s or "}" in s or "[," in s or ",]" in s:
        return True
    return field == "lreptmpl" and s.startswith("]")

def _argv_of(field, s):
    if field == "lreptmpl":
        v = [s, "b", s]
    elif field in ("lsp", "lcomma", "lrep", "multi"):
        v = [s, "b"]
    elif field == "path":
        v = Path(s)
    else:
        v = s
    t = _Str(**{field: v})
    values = {k: x for k, x in attrs.asdict(t, recurse=False).items() if not k.startswith("_")}
    return t, t._command_args(values=values)

def _c23(field, s):
    try:
        t, got = _argv_of(field, s)
    except Exception as e:
        T.reach()
        return "%s=%r: building the argv raises %r" % (field, s, e)
    T.reach()
    want = _EXPECT[field](s)
    if list(got) != want:
        return "%s=%r: argv %r, the value should arrive as %r" % (field, s, list(got), want)
    return None
'''

FIELDS = ["plain", "bare", "tmpl", "lsp", "lcomma", "lrep", "multi", "path", "lreptmpl"]


def build(tier, seed, exclude):
    g = Gen("C23", exclude)
    g.raw(HELPERS)
    quick = tier == "quick"
    n = 3 if quick else 4
    to = 25 if quick else 120
    for f in FIELDS:
        pre = [f"1 <= len(s) <= {n}"]
        if f == "path":
            pre.append("str(Path(s)) == s")     # Path normalisation ('a//b', 'a/.') is not the shell layer's doing
        if "C23-retokenised" in exclude:
            pre.append(f"not _special(s, {f!r})")
        if "C23-bracket-cleanup" in exclude and f in ("tmpl", "lreptmpl"):
            pre.append(f"not _bracket(s, {f!r})")
        g.cond(f"h_{f}", "s: str", pre, f"""
            err = _c23({f!r}, s)
            return T.fail(err) if err else True
        """, timeout=to)
        # steered classes: each decided separately (shell metacharacters, non-ASCII)
        g.cond(f"h_{f}_meta", "s: str", pre + ["any(c in '$*;&|<>(){}~#!?' for c in s)"], f"""
            err = _c23({f!r}, s)
            return T.fail(err) if err else True
        """, timeout=to)
        g.cond(f"h_{f}_unicode_space", "s: str", pre + ["any(c.isspace() and ord(c) > 127 for c in s)"], f"""
            err = _c23({f!r}, s)
            return T.fail(err) if err else True
        """, timeout=to)
        g.cond(f"h_{f}_nonascii", "s: str", pre + ["any(ord(c) > 127 for c in s)"], f"""
            err = _c23({f!r}, s)
            return T.fail(err) if err else True
        """, timeout=to)
    g.cond("twin_c23", "s: str", ["1 <= len(s) <= 2"], """
        err = _c23("plain", s)
        return False
    """, timeout=30, kind="twin")
    g.witness("w_space", """
        err = _c23("plain", "a b")
        return T.fail(err) if err else True
    """)
    g.witness("w_bracket", """
        err = _c23("tmpl", "[,") or _c23("tmpl", "}")
        return T.fail(err) if err else True
    """)
    return g.spec(bounds={"string length": f"1-{n}", "alphabet": "all of Unicode (minus the recorded finding classes while they are active)",
                          "field kinds": FIELDS})
