"""C31 Requirement and mutual-exclusion rules are enforced exactly."""
import random

from vf.core import Gen
from vf.hl import rules as RL

META = dict(
    functions_encoded=["pydra.compose.base.task.Task._rule_violations", "Task._check_rules", "Task._check_arg_refs",
                       "pydra.compose.base.field.Requirement.satisfied", "RequirementSet.satisfied", "requires_converter",
                       "pydra.engine.job.Job.__init__ / Task.__call__ (h_run_*: violations reported before any execution)"],
    stubs=["h_run_* conditions: vf/engine.py"],
    outside=["values for which 'set' is ambiguous in the documentation ('' and 0): every string/int is drawn by symbolic index from "
             "{None} + allowed values + one other value", "more than 5 fields, 2 alternatives x 2 requirements, 3 exclusive groups (disjoint or nested)", "false rejections of split tasks (a StateArray counts as set on the un-split check): the property states when a task may execute, not when it must"],
    assumptions=["a field is 'set' when its value is neither None nor False"],
)

HELPERS = '''
from vf.hl import rules as RL
import pydra.compose.base.task as BT
import pydra.compose.base.field as BF
T.assert_repo(BT, BF)

def _c31(task_cls, spec, raw):
    vals = {n: RL.to_value(k, r) for (n, k), r in zip(spec["fields"], raw)}
    t = task_cls(**vals)
    errs = t._rule_violations()
    raised = False
    try:
        t._check_rules()
    except ValueError:
        raised = True
    T.reach()
    ok = RL.rule_holds(spec, vals)
    if ok and (errs or raised):
        return "rules hold for %r (requires %r xor %r) but violations reported: %r" % (vals, spec["requires"], spec["xor"], errs)
    if not ok and not (errs and raised):
        return "rules violated by %r (requires %r xor %r) but accepted (violations=%r raised=%s)" % (vals, spec["requires"], spec["xor"], errs, raised)
    return None
'''


def build(tier, seed, exclude):
    g = Gen("C31", exclude)
    g.raw(HELPERS)
    quick = tier == "quick"
    rnd = random.Random(seed)
    nd = 24 if quick else 150
    to = 20 if quick else 60
    made = 0
    specs = []
    while made < nd:
        spec = RL.gen_rules(rnd, rnd.choice([3, 4, 4, 5]))
        if not spec["requires"] and not spec["xor"]:
            continue
        try:
            RL.make_task(spec, name="Probe")
        except Exception:
            continue
        specs.append(spec)
        d = made
        made += 1
        g.raw(f"_SPEC{d} = {spec!r}\n_TASK{d} = RL.make_task(_SPEC{d}, name='Rules{d}')")
        params = ", ".join(f"{n}: {'bool' if k == 'bool' else 'int'}" for n, k in spec["fields"])
        pre = [" and ".join(f"0 <= {n} < 4" for n, k in spec["fields"] if k != "bool") or "True"]
        raw = "[" + ", ".join(n for n, _ in spec["fields"]) + "]"
        g.cond(f"h_rules{d:03d}", params, pre, f"""
            err = _c31(_TASK{d}, _SPEC{d}, {raw})
            return T.fail(err) if err else True
        """, timeout=to)
    # reported before any execution: run through the engine
    g.raw("""
    import vf.engine as E
    import vf.rec as R
    E.install_all()
    def _run(task_cls, spec, raw):
        vals = T.real({n: RL.to_value(k, r) for (n, k), r in zip(spec["fields"], raw)})
        E.reset(); R.clear()
        d = E.scratch()
        raised = None
        try:
            task_cls(**vals)(cache_root=d, worker="debug")
        except Exception as e:
            raised = e
        finally:
            E.cleanup(d)
        T.reach()
        ok = RL.rule_holds(spec, vals)
        bodies = [ev for ev in R.LOG if ev[0] == "Rules"]
        if ok and (raised is not None or len(bodies) != 1):
            return "valid inputs %r: raised %r, bodies %d" % (vals, raised, len(bodies))
        if not ok and (raised is None or bodies):
            return "rule-violating inputs %r: raised %r after %d body execution(s)" % (vals, raised, len(bodies))
        return None
    """)
    # split over a field that takes part in the rules: an element that violates them must be reported before anything runs
    g.raw("""
    def _run_split(task_cls, spec, raw, fi, v2):
        vals = T.real({n: RL.to_value(k, r) for (n, k), r in zip(spec["fields"], raw)})
        fname, fkind = spec["fields"][fi]
        elems = [vals[fname], T.real(RL.to_value(fkind, v2))]
        others = {n: v for n, v in vals.items() if n != fname}
        E.reset(); R.clear()
        d = E.scratch()
        raised = None
        try:
            task_cls(**others).split(**{fname: elems})(cache_root=d, worker="debug")
        except Exception as e:
            raised = e
        finally:
            E.cleanup(d)
        T.reach()
        bad = [e for e in elems if not RL.rule_holds(spec, dict(others, **{fname: e}))]
        bodies = [ev for ev in R.LOG if ev[0] == "Rules"]
        if bad and (raised is None or bodies):
            return "split of %s over %r with %r: element(s) %r violate the rules, raised %r after %d body execution(s)" % (fname, elems, others, bad, raised, len(bodies))
        return None
    """)
    for d in range(3 if quick else 10):
        spec = specs[d]
        nf = len(spec["fields"])
        params = ", ".join(f"{n}: {'bool' if k == 'bool' else 'int'}" for n, k in spec["fields"]) + ", fi: int, v2: int"
        pre = [" and ".join(f"0 <= {n} < 4" for n, k in spec["fields"] if k != "bool") or "True", f"0 <= fi < {nf} and 0 <= v2 < 4"]
        raw = "[" + ", ".join(n for n, _ in spec["fields"]) + "]"
        g.cond(f"h_run_split{d:03d}", params, pre, f"""
            fi = T.real(fi)
            v2r = T.real(v2)
            kind = _SPEC{d}["fields"][fi][1]
            err = _run_split(_TASK{d}, _SPEC{d}, {raw}, fi, (v2r % 2 == 1) if kind == "bool" else v2r)
            return T.fail(err) if err else True
        """, timeout=(60 if quick else 240))
    for d in range(2 if quick else 8):
        spec = specs[d]
        params = ", ".join(f"{n}: {'bool' if k == 'bool' else 'int'}" for n, k in spec["fields"])
        pre = [" and ".join(f"0 <= {n} < 4" for n, k in spec["fields"] if k != "bool") or "True"]
        raw = "[" + ", ".join(n for n, _ in spec["fields"]) + "]"
        g.cond(f"h_run{d:03d}", params, pre, f"""
            err = _run(_TASK{d}, _SPEC{d}, {raw})
            return T.fail(err) if err else True
        """, timeout=(60 if quick else 240))
    g.cond("twin_c31", "a: bool", ["True"], """
        spec = {"fields": [("fa", "bool"), ("fb", "bool")], "requires": {"fa": [[("fb", None)]]}, "xor": []}
        err = _c31(RL.make_task(spec, name="Tw"), spec, [a, False])
        return False
    """, timeout=30, kind="twin")
    return g.spec(bounds={"definitions": nd, "fields": "3-5 of kinds bool / str|None / int|None", "values": "index-drawn: None, allowed values, one other"})
