"""C30 Workflow construction caching and repeated runs are transparent."""
from vf.core import Gen

META = dict(
    functions_encoded=["pydra.engine.workflow.Workflow.construct (exact and superset-of-lazy cache hits, deepcopy)", "Workflow.clear_cache",
                       "pydra.compose.workflow.WorkflowTask.construct (per-object memo, re-assigned inputs)", "Workflow._create_graph / execution_graph (run operations)",
                       "pydra.engine.node.Node"],
    stubs=["vf/engine.py (run operations)", "the fresh construction used as oracle runs with an empty construction cache swapped in"],
    outside=["histories longer than 4 operations", "more than two workflow inputs", "workflows with splitters inside (split *tasks*, which run through an implicit workflow, are covered by h_split_history)"],
    assumptions=["two constructions are 'the same graph' when node names, every node's field values (lazy fields by kind, node and "
                 "field) and the workflow inputs agree"],
)

HELPERS = '''
from vf.hl import eng as EN
import pydra.engine.workflow as WF
T.assert_repo(WF)
'''


def build(tier, seed, exclude):
    g = Gen("C30", exclude)
    g.raw(HELPERS)
    quick = tier == "quick"
    to = 100 if quick else 500
    L = 3 if quick else 4
    params = ", ".join(f"k{t}: int, a{t}: int, b{t}: int" for t in range(L))
    pre = [" and ".join(f"0 <= k{t} <= 4 and 1 <= a{t} <= 3 and 1 <= b{t} <= 3" for t in range(L))]
    ops = "[" + ", ".join(f"(T.real(k{t}), T.real(a{t}), T.real(b{t}))" for t in range(L)) + "]"
    # partition by the first operation kind
    for k0 in range(5):
        g.cond(f"h_history_first{k0}", params, pre + [f"k0 == {k0}"], f"""
            err = EN.c30({ops})
            return T.fail(err) if err else True
        """, timeout=to)
    # steered: promotion path (a partially lazy construction first, then concrete ones) and permuted values
    g.cond("h_promotion", "lz: int, a1: int, b1: int, a2: int, b2: int", ["1 <= lz <= 3 and 1 <= a1 <= 3 and 1 <= b1 <= 3 and 1 <= a2 <= 3 and 1 <= b2 <= 3"], """
        lz, a1, b1, a2, b2 = T.real((lz, a1, b1, a2, b2))
        err = EN.c30([(lz, a1, b1), (0, a1, b1), (0, a2, b2), (4, a1, b1), (lz, a2, b2)])
        return T.fail(err) if err else True
    """, timeout=to)
    g.cond("h_permuted_values", "a: int, b: int, k: int", ["1 <= a <= 3 and 1 <= b <= 3 and a != b and 0 <= k <= 4"], """
        a, b, k = T.real((a, b, k))
        err = EN.c30([(k, a, b), (k, b, a), (4, a, b), (4, b, a)])
        return T.fail(err) if err else True
    """, timeout=to)
    # split tasks (implicit workflow; with and without container_ndim) and a workflow that is invalid for some input values
    g.cond("h_split_history", "k0: int, k1: int, k2: int, k3: int, a: int, b: int", ["0 <= k0 < 3 and 0 <= k1 < 3 and 0 <= k2 < 3 and 0 <= k3 < 3 and 1 <= a <= 2 and 1 <= b <= 2"], """
        a, b = T.real((a, b))
        kinds = [[7, 8, 4][T.real(k)] for k in (k0, k1, k2, k3)]
        err = EN.c30([(kinds[0], a, b), (kinds[1], a, b), (kinds[2], b, a), (kinds[3], a, b)])
        return T.fail(err) if err else True
    """, timeout=to)
    g.cond("h_invalid_construction_history", "k0: int, k1: int, k2: int, a0: int, a1: int, a2: int", ["0 <= k0 < 3 and 0 <= k1 < 3 and 0 <= k2 < 3 and 1 <= a0 <= 3 and 1 <= a1 <= 3 and 1 <= a2 <= 3"], """
        kinds = [[9, 0, 9][T.real(k)] for k in (k0, k1, k2)]
        err = EN.c30([(kinds[0], T.real(a0), 1), (kinds[1], T.real(a1), 1), (kinds[2], T.real(a2), 1)])
        return T.fail(err) if err else True
    """, timeout=to)
    # one task object used repeatedly with re-assigned inputs (the per-object construction memo)
    g.cond("h_reassigned_inputs", "k1: int, k2: int, k3: int, a1: int, b1: int, a2: int, b2: int", ["5 <= k1 <= 6 and 4 <= k2 <= 6 and 5 <= k3 <= 6 and 1 <= a1 <= 2 and 1 <= b1 <= 2 and 1 <= a2 <= 2 and 1 <= b2 <= 2"], """
        k1, k2, k3, a1, b1, a2, b2 = T.real((k1, k2, k3, a1, b1, a2, b2))
        err = EN.c30([(k1, a1, b1), (k2, a2, b2), (k3, a2, b1)])
        return T.fail(err) if err else True
    """, timeout=to)
    g.cond("twin_c30", "a: int", ["1 <= a <= 2"], """
        err = EN.c30([(0, T.real(a), 1)])
        return False
    """, timeout=60, kind="twin")
    return g.spec(bounds={"history length": L, "operations": "construct with lazy subset of {a, b} / run / construct or run one task object after re-assigning its inputs", "values": "1..3"})
