"""C12 A crash at any point never yields a wrong result or a wedged cache (partial)."""
from vf.core import Gen

META = dict(
    technique='solver-based bounded symbolic execution of the real code (CrossHair + z3), counterexample replay; the stale-lock condition runs its solver-chosen inputs outside the tracer (filelock consults pid/time)',
    functions_encoded=["pydra.engine.job.Job.run / run_async (ordering of lock, _populate_filesystem, body, save, record_error, info-file "
                       "unlink)", "pydra.engine.result.save", "load_result (retry on truncated pickle)", "Job.result / Job.done",
                       "Submitter.__call__ / expand_workflow (resubmission)"],
    stubs=["vf/engine.py", "process death is modelled on persistent state only: at the selected persistence event a BaseException is raised and "
           "the cache root is copied *as it is at that instant*; the resubmission (fresh Submitter and Job objects) runs against that copy",
           "a result/job file whose write was in flight is left truncated (2 bytes, a quarter, half, or all but the last byte of the real pickle - symbolic choice)"],
    outside=["'does not block forever on a lock left by the dead process': in the crash-point conditions stale lock files are deleted "
             "from the snapshot; the clause itself is covered by h_stale_lock only for a lock file that is an hour old and empty, "
             "holds the pid of a dead process or garbage (filelock's real stale-lock handling, run outside the tracer); locks of live "
             "processes and younger malformed locks are outside", "crashes of SLURM/SGE wrapper processes",
             "truncation at byte offsets other than 2 bytes, a quarter, half and all-but-one byte of the file", "crashes between two file-system operations inside third-party code"],
    assumptions=["persistent state changes only at save(), record_error() and directory operations, so crash points between two of these "
                 "are covered by the earlier one"],
)

HELPERS = '''
from vf.hl import eng as EN
import pydra.engine.job as JB
import pydra.engine.result as RS
T.assert_repo(JB, RS)
'''


def build(tier, seed, exclude):
    g = Gen("C12", exclude)
    g.raw(HELPERS)
    quick = tier == "quick"
    to = 110 if quick else 500
    for wf, lo, hi in ((False, 1, 4), (True, 1, 4), (True, 5, 8), (True, 9, 12)):
        for phase in (0, 1, 2):
            extra, pre_x, arg = ("", "", "")
            if phase == 1:
                extra, pre_x, arg = (", cut: int", " and 0 <= cut <= 3", ", cut=T.real(cut)")
            g.cond(f"h_crash_{'wf' if wf else 'task'}_ev{lo}_{hi}_phase{phase}", "event: int, fails_later: bool" + extra, [f"{lo} <= event <= {hi}" + pre_x], f"""
                err = EN.c12(T.real(event), {phase}, {wf}, T.real(fails_later), 1{arg})
                return T.fail(err) if err else True
            """, timeout=to)
    # a task whose body is sensitive to leftovers of the dead process in its working directory
    for phase in (0, 1, 2):
        g.cond(f"h_crash_journal_phase{phase}", "event: int, cut: int", ["1 <= event <= 4 and 0 <= cut <= 3"], f"""
            err = EN.c12(T.real(event), {phase}, False, False, 1, cut=T.real(cut), journal=True)
            return T.fail(err) if err else True
        """, timeout=to)
    if False:
        for phase in ():
            pass
    # a lock file left behind by a process that died while holding the job's lock
    g.cond("h_stale_lock", "wf: bool, content: int, use_async: bool", ["0 <= content <= 2"], """
        err = EN.c12_stale_lock(T.real(wf), T.real(content), T.real(use_async))
        return T.fail(err) if err else True
    """, timeout=to)
    g.cond("twin_c12", "event: int", ["1 <= event <= 2"], """
        err = EN.c12(T.real(event), 2, False, False, 1)
        return False
    """, timeout=120, kind="twin")
    return g.spec(bounds={"persistence events": "every save() call and every body entry of a single task (<= 4) and of a two-node workflow (<= 12)",
                          "phase": "before / mid-write / after the event"})
