"""C37 Graph operations keep a valid topological order."""
from vf.core import Gen

META = dict(
    functions_encoded=["pydra.engine.graph.DiGraph.add_nodes", "DiGraph.add_edges", "DiGraph.remove_nodes",
                       "DiGraph.remove_nodes_connections", "DiGraph.remove_successors_nodes",
                       "DiGraph.remove_previous_connections", "DiGraph.sorting", "DiGraph._sorting", "DiGraph.copy"],
    stubs=[],
    outside=["more than 5 nodes; histories longer than 8 free operations (or a generated DAG of <= 5 nodes followed by 4 free removal operations)", "operations that violate the documented call protocol "
             "(edges between absent nodes, removing a node that still has predecessors, removing connections of a node "
             "that was not removed) - the harness skips them using its own reference state"],
    assumptions=["acyclicity is maintained by the harness: an edge is admitted only if the reference state has no path back"],
)

HELPERS = '''
from pydra.engine import graph as G
T.assert_repo(G)

class Nd:
    def __init__(self, name):
        self.name = name
    def __repr__(self):
        return self.name

def _reach(edges, a, b):
    seen, todo = set(), [a]
    while todo:
        x = todo.pop()
        if x == b:
            return True
        if x in seen:
            continue
        seen.add(x)
        todo.extend(v for (u, v) in edges if u == x)
    return False

def _check(g, present, edges):
    names = [n.name for n in g.sorted_nodes]
    if sorted(names) != sorted(present):
        return "sorted %s but remaining nodes %s" % (names, sorted(present))
    pos = {n: k for k, n in enumerate(names)}
    for (u, v) in edges:
        if u in present and v in present and not pos[u] < pos[v]:
            return "edge %s->%s but order %s" % (u, v, names)
    return None

class _Budget(Exception):
    pass

_CALLS = [0]
_real_sorting = G.DiGraph._sorting

def _budgeted(self, notsorted_list, predecessors):
    _CALLS[0] += 1
    if _CALLS[0] > 90:
        raise _Budget("DiGraph._sorting called more than 90 times in a history of at most 15 operations over 5 nodes: sorting does not terminate")
    return _real_sorting(self, notsorted_list, predecessors)

G.DiGraph._sorting = _budgeted

def _history(n, ops, obs, use_copy, pre_edges=(), early=False):
    """Run ops on a real DiGraph, mirrored on a reference state; returns error text or None.
    early: the order is also observed (hence maintained incrementally) from the first operation of the set-up phase on."""
    try:
        return _history_inner(n, ops, obs, use_copy, pre_edges, early)
    except _Budget as e:
        return "history %s (after edges %s): %s" % (T.real(list(ops)), list(pre_edges), e)

def _history_inner(n, ops, obs, use_copy, pre_edges=(), early=False):
    _CALLS[0] = 0
    nodes = [Nd("n%d" % i) for i in range(n)]
    g = G.DiGraph(name="g")
    if pre_edges:
        ops = [(0, i, 0) for i in range(n)] + [(1, a, b) for a, b in pre_edges] + list(ops)
        obs = obs << (n + len(pre_edges)) | (1 << (n + len(pre_edges) - 1)) | (1 if early else 0)
    present, wip, edges, log = set(), set(), set(), []
    t = -1
    ops = list(ops)
    while ops:
        t += 1
        op = ops.pop(0)
        if len(op) == 1:
            # selector form: pick the (op[0] mod m)-th of the m removal operations that are valid right now
            ready = sorted(x for x in present if not any(v == x for (u, v) in edges))
            valid = [(2, int(x[1:]), 0) for x in ready] + [(3, int(x[1:]), 0) for x in sorted(wip)] + \
                    [(4, int(x[1:]), 0) for x in sorted(wip)] + \
                    [(5, int(x[1:]), int(y[1:])) for x in ready for y in ready if x < y]
            if not valid:
                break
            k, i, j = valid[op[0] % len(valid)]
        else:
            k, i, j = op[0], op[1], op[2]
        a, b = nodes[i], nodes[j]
        if k == 0:
            if a.name in present or a.name in wip:
                continue
            g.add_nodes(a); present.add(a.name); log.append("add_nodes(%s)" % a)
        elif k == 1:
            if not (a.name in present and b.name in present) or i == j or (a.name, b.name) in edges:
                continue
            if _reach(edges, b.name, a.name):
                continue
            g.add_edges((a, b)); edges.add((a.name, b.name)); log.append("add_edges(%s,%s)" % (a, b))
        elif k == 6:
            # two edges added in one call
            c, d = nodes[op[3]], nodes[op[4]]
            e1, e2 = (a.name, b.name), (c.name, d.name)
            if e1 == e2 or i == j or op[3] == op[4] or not all(x in present for x in e1 + e2) or e1 in edges or e2 in edges:
                continue
            if _reach(edges, b.name, a.name) or _reach(edges | {e1}, d.name, c.name):
                continue
            g.add_edges([(a, b), (c, d)]); edges |= {e1, e2}; log.append("add_edges([(%s,%s), (%s,%s)])" % (a, b, c, d))
        elif k == 2:
            if a.name not in present or any(v == a.name for (u, v) in edges):
                continue
            g.remove_nodes(a); present.discard(a.name); wip.add(a.name); log.append("remove_nodes(%s)" % a)
        elif k == 5:
            # two ready nodes removed in one call
            if i == j or a.name not in present or b.name not in present:
                continue
            if any(v in (a.name, b.name) for (u, v) in edges):
                continue
            g.remove_nodes([a, b]); present -= {a.name, b.name}; wip |= {a.name, b.name}
            log.append("remove_nodes([%s, %s])" % (a, b))
        elif k == 3:
            if a.name not in wip:
                continue
            g.remove_nodes_connections(a); wip.discard(a.name)
            edges = {(u, v) for (u, v) in edges if u != a.name}; log.append("remove_nodes_connections(%s)" % a)
        elif k == 4:
            if a.name not in wip:
                continue
            desc = {x for x in present if _reach(edges, a.name, x)}
            got = g.remove_successors_nodes(a); wip.discard(a.name)
            log.append("remove_successors_nodes(%s)" % a)
            if set(got) != desc:
                return "%s: removed %s, descendants are %s" % (log, sorted(got), sorted(desc))
            present -= desc
            edges = {(u, v) for (u, v) in edges if u != a.name and u not in desc and v not in desc}
        if use_copy and t == 1:
            g = g.copy()
        if (obs >> t) & 1:
            err = _check(g, present, edges)
            if err:
                return "%s: %s" % (log, err)
    err = _check(g, present, edges)
    return ("%s: %s" % (log, err)) if err else None
'''

# operation-kind words: each condition fixes the kinds, node indices stay symbolic
WORDS_QUICK = ["00112", "001012", "0011230", "00101123", "0001124", "00011214", "0010120", "00112301"]


def build(tier, seed, exclude):
    import itertools, random
    g = Gen("C37", exclude)
    g.raw(HELPERS)
    quick = tier == "quick"
    n = 4 if quick else 5
    words = list(WORDS_QUICK)
    rnd = random.Random(seed)
    extra = 8 if quick else 40
    L = 7 if quick else 8
    for _ in range(extra):
        w = "0" + "".join(rnd.choice("0011234") for _ in range(L - 1))
        if w not in words:
            words.append(w)
    to = 20 if quick else 90
    for w in words:
        params = ", ".join(f"i{t}: int, j{t}: int" for t in range(len(w))) + ", obs: int, cp: bool"
        pre = [" and ".join(f"0 <= i{t} < {n} and 0 <= j{t} < {n}" for t in range(len(w))), f"0 <= obs < {2 ** len(w)}"]
        ops = "[" + ", ".join(f"({k}, i{t}, j{t})" for t, k in enumerate(w)) + "]"
        g.cond(f"h_ops_{w}", params, pre, f"""
            err = _history({n}, {ops}, obs, cp)
            T.reach()
            if err:
                return T.fail(err)
            return True
        """, timeout=to)
    # concrete (seeded) DAG shapes, symbolic removal histories on top of them
    def rand_dag(k):
        edges = [(a, b) for a in range(k) for b in range(a + 1, k) if rnd.random() < 0.5]
        perm = list(range(k)); rnd.shuffle(perm)
        edges = [(perm[a], perm[b]) for a, b in edges]
        rnd.shuffle(edges)
        return edges
    dags = [[(1, 3), (0, 3), (2, 0), (0, 1)], [(2, 0), (0, 1), (0, 3), (1, 3)], [(0, 1), (0, 2), (1, 3), (2, 3)], [(0, 1), (1, 2), (2, 3)]]
    dags += [rand_dag(4) for _ in range(5 if quick else 20)] + [rand_dag(5) for _ in range(4 if quick else 20)]
    for d, edges in enumerate(dags):
        k = 1 + max([0] + [max(a, b) for a, b in edges])
        k = max(k, 4)
        Lr = 4
        params = ", ".join(f"s{t}: int" for t in range(Lr)) + ", obs: int"
        pre = [" and ".join(f"0 <= s{t} < 12" for t in range(Lr)), f"0 <= obs < {2 ** Lr}"]
        ops = "[" + ", ".join(f"(s{t},)" for t in range(Lr)) + "]"
        g.cond(f"h_dag{d:02d}", params, pre, f"""
            err = _history({k}, {ops}, obs, False, pre_edges={edges!r})
            T.reach()
            return T.fail(err) if err else True
        """, timeout=to)
    # edges added to an already sorted graph (one edge or two edges per call): chains and generated DAGs, symbolic end points
    edags = [[(0, 1), (1, 2)], [(0, 1), (1, 2), (2, 3)], [(0, 1), (2, 3)], [(0, 1), (0, 2)], []] + [rand_dag(4) for _ in range(3 if quick else 10)] + \
        [rand_dag(5) for _ in range(2 if quick else 10)]
    for d, edges in enumerate(edags):
        k = max(4, 1 + max([0] + [max(a, b) for a, b in edges]))
        if not edges or d < 5:
            k = 5 if d == 1 else 4
        for form, params, ops in (
                ("one", "i0: int, j0: int, early: bool", "[(1, i0, j0)]"),
                ("pair", "i0: int, j0: int, p0: int, q0: int, early: bool", "[(6, i0, j0, p0, q0)]"),
                ("seq", "i0: int, j0: int, i1: int, j1: int, early: bool", "[(1, i0, j0), (1, i1, j1)]")):
            names = [v.split(":")[0] for v in params.split(", ") if "int" in v]
            pre = [" and ".join(f"0 <= {v} < {k}" for v in names)]
            g.cond(f"h_edges_sorted{d:02d}_{form}", params, pre, f"""
                err = _history({k}, {ops}, 3, False, pre_edges={edges!r}, early=early)
                T.reach()
                return T.fail(err) if err else True
            """, timeout=to)
    # fully symbolic kinds (search)
    Ls = 5
    params = ", ".join(f"k{t}: int, i{t}: int, j{t}: int" for t in range(Ls)) + ", obs: int"
    pre = [" and ".join(f"0 <= k{t} < 5 and 0 <= i{t} < {n} and 0 <= j{t} < {n}" for t in range(Ls)), f"0 <= obs < {2 ** Ls}"]
    ops = "[" + ", ".join(f"(k{t}, i{t}, j{t})" for t in range(Ls)) + "]"
    g.cond("h_ops_any", params, pre, f"""
        err = _history({n}, {ops}, obs, False)
        T.reach()
        return T.fail(err) if err else True
    """, timeout=to * 2)
    g.cond("twin_ops", "i0: int, i1: int", [f"0 <= i0 < {n} and 0 <= i1 < {n}"], f"""
        err = _history({n}, [(0, i0, 0), (0, i1, 0), (1, i0, i1)], 7, False)
        T.reach()
        return err is not None
    """, timeout=30, kind="twin")
    return g.spec(bounds={"nodes": n, "operations per history": f"<= {L}", "kind words": len(words),
                          "observation points": "symbolic bitmask (sorted_nodes read after any subset of steps)"})
