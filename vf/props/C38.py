"""C38 Mount lookup compares whole path components."""
import ast
import inspect
import itertools
import time

from vf.core import Gen

META = dict(
    technique="solver-based bounded symbolic execution of the real code (CrossHair + z3), counterexample replay; plus AST->z3 translation of get_mount's selection expression (bounded proof over strings <= 12)",
    functions_encoded=["pydra.utils.mount_identifier.MountIndentifier.get_mount",
                       "MountIndentifier.patch_table", "MountIndentifier.on_same_mount",
                       "MountIndentifier.on_cifs", "MountIndentifier.parse_mount_table"],
    stubs=["mount table supplied through the public patch_table() context (no `mount` sub-process)"],
    outside=["paths with '.', '..', empty or repeated-slash components (assumed normalised absolute paths)",
             "more than 3 mounts, more than 3 path components, components longer than 3 characters (E1)",
             "strings longer than 12 characters (E2)"],
    assumptions=["paths are normalised absolute POSIX paths", "the mount table is ordered longest mount point first "
                 "(established by parse_mount_table, itself exercised in h_parse_*)"],
    explanation="E2: get_mount's selection expression is translated from the current AST to z3 strings.",
)

HELPERS = '''
from pathlib import Path
from pydra.utils.mount_identifier import MountIndentifier as MI
import pydra.utils.mount_identifier as _mi
T.assert_repo(_mi)

def _okc(c):
    return 1 <= len(c) <= 3 and "/" not in c and c != "." and c != ".." and chr(0) not in c

def _join(cs):
    return "/" + "/".join(cs)

def _comp_prefix(m, p):
    return m == "/" or p == m or p.startswith(m + "/")

def _oracle(table, p):
    """longest mount point that is a path-component prefix of p; default ('/', 'ext4')"""
    best = None
    for m, t in table:
        if _comp_prefix(m, p) and (best is None or len(m) > len(best[0])):
            best = (m, t)
    return best if best is not None else ("/", "ext4")

def e2_replay(tbl, p):
    tbl = [(m, "t%d" % i) for i, m in enumerate(tbl)]
    with MI.patch_table(tbl):
        mp, fs = MI.get_mount(p)
    em, et = _oracle(tbl, p)
    if str(mp) != em:
        return T.fail(lambda: f"get_mount({p!r}) with table {tbl} -> {str(mp)!r}, expected {em!r}")
    return True

def _table(ms):
    # as produced by parse_mount_table: longest first
    return sorted(((m, "t%d" % i) for i, m in enumerate(ms)), key=lambda x: len(x[0]), reverse=True)
'''


def build(tier, seed, exclude):
    g = Gen("C38", exclude)
    g.raw(HELPERS)
    quick = tier == "quick"
    to = 25 if quick else 120
    # shapes: depths of two/three mounts and of the path
    shapes = [(1, 1, 1), (1, 1, 2), (1, 2, 2), (1, 2, 3), (2, 2, 3)] if quick else \
        [s for s in itertools.product((1, 2), (1, 2), (1, 2, 3))]
    for (d1, d2, dp) in shapes:
        names = [f"a{i}" for i in range(d1)] + [f"b{i}" for i in range(d2)] + [f"p{i}" for i in range(dp)]
        params = ", ".join(f"{n}: str" for n in names) + ", root: bool"
        pre = [" and ".join(f"_okc({n})" for n in names)]
        A = "[" + ", ".join(f"a{i}" for i in range(d1)) + "]"
        B = "[" + ", ".join(f"b{i}" for i in range(d2)) + "]"
        P = "[" + ", ".join(f"p{i}" for i in range(dp)) + "]"
        body = f"""
        m1, m2, p = _join({A}), _join({B}), _join({P})
        if m1 == m2:
            return True
        tbl = _table([m1, m2] + (["/"] if root else []))
        with MI.patch_table(tbl):
            mp, fs = MI.get_mount(p)
            same = MI.on_same_mount(p, m1)
        T.reach()
        em, et = _oracle(tbl, p)
        if not (str(mp) == em and fs == et):
            return T.fail(lambda: f"get_mount({{p!r}}) with table {{tbl}} -> {{(str(mp), fs)}}, expected {{(em, et)}}")
        if same != (em == _oracle(tbl, m1)[0]):
            return T.fail(lambda: f"on_same_mount({{p!r}}, {{m1!r}}) = {{same}} with table {{tbl}}")
        return True
        """
        g.cond(f"h_mount_{d1}{d2}{dp}", params, pre, body, timeout=to)
    # reachability twin
    g.cond("twin_mount", "a0: str, p0: str, p1: str", ["_okc(a0) and _okc(p0) and _okc(p1)"], """
        with MI.patch_table(_table([_join([a0])])):
            mp, fs = MI.get_mount(_join([p0, p1]))
        T.reach()
        return False
        """, timeout=30, kind="twin")
    # parse_mount_table keeps the order get_mount relies on and the cifs sub-tree rule
    g.raw("""
    _POOL = ["/data", "/data2", "/data/sub", "/d", "/mnt", "/mnt/a.b", "/datab/x", "/"]
    _FILES = ["", "/f", "2/f", "/sub/f", "b/x/f", ".b"]
    """)
    g.cond("h_parse_order", "i: int, j: int, k: int, f: int, swap: bool",
           ["0 <= i < 8 and 0 <= j < 8 and 0 <= k < 8 and 0 <= f < 6"], """
        m1, m2 = _POOL[i], _POOL[j]
        p = _POOL[k] + _FILES[f]
        if m1 == m2 or (p.endswith("/") and p != "/") or "//" in p or p.startswith("/2") or p.startswith("/b/") or p.startswith("/."):
            return True
        lines = ["//srv/x on %s type cifs (rw)" % m1, "//srv/y on %s type CIFS (rw)" % m2]
        if swap:
            lines.reverse()
        tbl = MI.parse_mount_table(0, "\\n".join(lines) + "\\n")
        with MI.patch_table(tbl):
            mp, fs = MI.get_mount(p)
            cifs = MI.on_cifs(p)
        T.reach()
        em, et = _oracle([(m1, "cifs"), (m2, "CIFS")], p)
        if str(mp) != em or cifs != (et == "cifs"):
            return T.fail(lambda: f"parse_mount_table+get_mount({p!r}) mounts {m1!r},{m2!r} -> {str(mp)!r},{cifs} expected {em!r}")
        return True
        """, timeout=to)
    # mount-point names with characters that are special to pattern languages (regular expressions, globs, format strings):
    # the path differs from the mount point in exactly one position, by a symbolic character
    g.raw("""
    _SPECIAL = ["a.b", "a*", "a+b", "ab?", "[ab]", "a|b", "(a)", "a$", "^a", "a{1}", "a b", "%s", "{0}", "a~", "a#b", "a.b.c"]
    """)
    g.cond("h_mount_special", "i: int, pos: int, ch: str, deep: bool, root: bool", ["0 <= i < 16 and 0 <= pos < 5 and len(ch) <= 1", "ch != '/' and chr(0) not in ch"], """
        name = _SPECIAL[T.real(i)]
        pos = T.real(pos)
        if pos >= len(name):
            return True
        sib = name[:pos] + ch + name[pos + 1:]
        if sib in ("", ".", ".."):
            return True
        m1 = "/mnt/" + name
        p = "/mnt/" + sib + ("/sub/f" if deep else "")
        tbl = _table([m1, "/mnt"] + (["/"] if root else []))
        with MI.patch_table(tbl):
            mp, fs = MI.get_mount(p)
            same = MI.on_same_mount(p, m1 + "/g")
        T.reach()
        em, et = _oracle(tbl, p)
        if not (str(mp) == em and fs == et):
            return T.fail(lambda: f"get_mount({p!r}) with table {tbl} -> {(str(mp), fs)}, expected {(em, et)}")
        if same != (em == m1):
            return T.fail(lambda: f"on_same_mount({p!r}, {m1 + '/g'!r}) = {same} with table {tbl}")
        return True
        """, timeout=to * 2)
    return g.spec(bounds={"mounts": "2-3 (two symbolic + optional '/')", "mount depth": "1-2 components",
                          "path depth": "1-3 components", "component length": "1-3 chars, any Unicode except '/' and NUL",
                          "E2": "3 mounts, strings <= 12 chars over the full alphabet"})


# ----------------------------------------------------------------------------- E2
def _translate_test(test, z3, path, p):
    """Translate the generator's `if` test.  Refuse anything unknown."""
    src = ast.unparse(test)
    def is_name(n, ident):
        return isinstance(n, ast.Name) and n.id == ident
    def pathlike(n, ident):  # X, str(X), Path(X), PurePath(X)
        if is_name(n, ident):
            return True
        return (isinstance(n, ast.Call) and isinstance(n.func, ast.Name) and n.func.id in ("str", "Path", "PurePath", "PurePosixPath")
                and len(n.args) == 1 and pathlike(n.args[0], ident))
    if isinstance(test, ast.Call) and isinstance(test.func, ast.Attribute) and len(test.args) == 1:
        recv, meth, arg = test.func.value, test.func.attr, test.args[0]
        if meth == "startswith" and pathlike(recv, "path") and is_name(arg, "p") and not is_name(recv, "path"):
            # str(path).startswith(p)
            if isinstance(recv, ast.Call) and recv.func.id == "str":
                return z3.PrefixOf(p, path), "str.prefixof", src
        if meth == "is_relative_to" and pathlike(recv, "path") and pathlike(arg, "p"):
            comp = z3.Or(p == z3.StringVal("/"), path == p, z3.PrefixOf(z3.Concat(p, z3.StringVal("/")), path))
            return comp, "component-prefix (PurePath.is_relative_to on normalised paths)", src
    return None, None, src


def smt(tier, seed, exclude):
    import z3
    import pydra.utils.mount_identifier as mi
    import os
    assert mi.__file__.startswith(os.environ.get("VF_REPO", "/repo").rstrip("/") + "/")
    fn_src = inspect.getsource(mi.MountIndentifier.get_mount)
    import textwrap
    tree = ast.parse(textwrap.dedent(fn_src))
    gens = [n for n in ast.walk(tree) if isinstance(n, ast.GeneratorExp)]
    res = []
    if len(gens) != 1 or len(gens[0].generators) != 1 or len(gens[0].generators[0].ifs) != 1:
        return [{"name": "get_mount.selection", "result": "refused", "solver": "z3",
                 "why": "get_mount no longer has the single-generator shape the translator knows"}]
    comp = gens[0].generators[0]
    tgt = ast.unparse(comp.target)
    if tgt.replace(" ", "") not in ("p,t", "(p,t)"):
        return [{"name": "get_mount.selection", "result": "refused", "solver": "z3", "why": f"target {tgt}"}]
    n = 3
    L = 12
    path = z3.String("path")
    ms = [z3.String(f"m{i}") for i in range(n)]
    sel_terms = []
    refused = None
    for m in ms:
        term, how, src = _translate_test(comp.ifs[0], z3, path, m)
        if term is None:
            refused = src
            break
        sel_terms.append(term)
    if refused:
        return [{"name": "get_mount.selection", "result": "refused", "solver": "z3",
                 "why": f"unknown selection test: {refused}"}]

    def norm(s):  # normalised absolute path
        return z3.And(z3.PrefixOf(z3.StringVal("/"), s), z3.Length(s) <= L,
                      z3.Not(z3.Contains(s, z3.StringVal("//"))),
                      z3.Or(s == z3.StringVal("/"), z3.Not(z3.SuffixOf(z3.StringVal("/"), s))),
                      z3.Not(z3.Contains(z3.Concat(s, z3.StringVal("/")), z3.StringVal("/./"))),
                      z3.Not(z3.Contains(z3.Concat(s, z3.StringVal("/")), z3.StringVal("/../"))))

    def cprefix(m):
        return z3.Or(m == z3.StringVal("/"), path == m, z3.PrefixOf(z3.Concat(m, z3.StringVal("/")), path))

    base = [norm(path)] + [norm(m) for m in ms] + [z3.Distinct(*ms)]
    # table order: longest first (parse_mount_table)
    base += [z3.Length(ms[i]) >= z3.Length(ms[i + 1]) for i in range(n - 1)]
    # selected index = first i whose test holds
    viol = []
    for i in range(n):
        first = z3.And(sel_terms[i], *[z3.Not(sel_terms[j]) for j in range(i)])
        wrong = z3.Or(z3.Not(cprefix(ms[i])),
                      *[z3.And(cprefix(ms[j]), z3.Length(ms[j]) > z3.Length(ms[i])) for j in range(n) if j != i])
        viol.append(z3.And(first, wrong))
    # nothing selected although some mount is a component prefix
    none_sel = z3.And(*[z3.Not(t) for t in sel_terms])
    viol.append(z3.And(none_sel, z3.Or(*[z3.And(cprefix(m), m != z3.StringVal("/")) for m in ms])))

    def ask(name, extra, expect):
        s = z3.Solver()
        s.set("timeout", 60000 if tier == "quick" else 300000)
        s.add(*base)
        s.add(extra)
        t0 = time.time()
        r = str(s.check())
        q = {"name": name, "solver": "z3 " + z3.get_version_string(), "result": r, "expect": expect,
             "time_s": round(time.time() - t0, 3), "smtlib": s.to_smt2()[-1500:],
             "translated_from": ast.unparse(comp.ifs[0])}
        if r == "sat":
            m = s.model()
            q["model"] = {str(d): m[d].as_string() for d in m.decls()}
        return q

    q1 = ask("get_mount.selection: selected != longest component-prefix mount", z3.Or(*viol), "unsat")
    if q1["result"] == "sat":
        md = q1["model"]
        tbl = [md.get(f"m{i}", "/") for i in range(n)]
        q1["replay"] = {"fn": "e2_replay", "call": f"e2_replay({tbl!r}, {md.get('path', '/')!r})"}
    q2 = ask("reachability: some mount selected and property non-trivial",
             z3.And(sel_terms[1], z3.Not(sel_terms[0]), z3.Length(path) > z3.Length(ms[1]) + 1), "sat")
    # translator validation: the encoding and the real function agree on the repo's own style of inputs
    val = _validate(comp, tier)
    return [q1, q2] + val


def _validate(comp, tier):
    """Push concrete inputs through real get_mount and through the z3 encoding (evaluated by z3)."""
    import z3
    from pydra.utils.mount_identifier import MountIndentifier as MI
    cases = [([("/scratch/tmp", "ext4"), ("/scratch", "cifs")], "/scratch/tmp/x"),
             ([("/scratch/tmp", "ext4"), ("/scratch", "cifs")], "/scratch/y"),
             ([("/data2", "nfs"), ("/data", "cifs")], "/data/x"),
             ([("/data", "cifs"), ("/", "ext4")], "/other/x"),
             ([("/a/b", "x"), ("/a", "y")], "/a/bc")]
    bad = 0
    for tbl, p in cases:
        with MI.patch_table(tbl):
            real = str(MI.get_mount(p)[0])
        enc = "/"
        for m, _t in tbl:
            term, _, _ = _translate_test(comp.ifs[0], z3, z3.StringVal(p), z3.StringVal(m))
            if z3.is_true(z3.simplify(term)):
                enc = m
                break
        if enc != real:
            bad += 1
    return [{"name": f"translator validation on {len(cases)} concrete inputs", "solver": "z3 simplify",
             "result": "unsat" if bad == 0 else "error", "expect": "unsat", "time_s": 0.0,
             "disagreements": bad}]
