"""C34 File inputs are staged according to their copy mode (partial)."""
from vf.core import Gen

META = dict(
    functions_encoded=["pydra.utils.typing.copy_nested_files (file-set cache, supported_modes arithmetic)", "TypeParser.apply_to_instances",
                       "pydra.utils.mount_identifier.MountIndentifier.on_cifs / on_same_mount (mode restrictions)",
                       "pydra.engine.job.Job.inputs (h_job_inputs: staging of a task's file inputs)", "pydra.compose.python.PythonTask._run (what the function receives)"],
    stubs=["real files in a scratch directory; fileformats' FileSet.copy performs the real copy/link", "the mount table is supplied through "
           "MountIndentifier.patch_table for the CIFS / cross-mount conditions"],
    outside=["what a copy or a link *is* (independence of a copy, a link showing the original) is fileformats and kernel behaviour: only "
             "'same file' (os.path.samefile) versus 'different inode with equal content' is observed", "nesting deeper than 2, more than 3 "
             "distinct files", "directories and multi-file file-sets"],
    assumptions=["the nested value is built from a symbolic shape code: outer container kind, 1-3 elements, each an int, a string, one of "
                 "three files, or an inner list"],
)

HELPERS = '''
import os
import typing as ty
from pathlib import Path
from fileformats.generic import File
import pydra.utils.typing as PT
from pydra.utils.typing import copy_nested_files
from pydra.utils.mount_identifier import MountIndentifier as MI
import vf.engine as E
T.assert_repo(PT)

def _build(codes, files, outer):
    elems = []
    for c in codes:
        if c == 0:
            elems.append(17)
        elif c == 1:
            elems.append("text")
        elif c in (2, 3, 4):
            elems.append(files[c - 2])
        elif c == 5:
            elems.append([files[0], 5])
        elif c == 6:
            elems.append((files[1], files[0]))
        elif c == 7:
            elems.append(File(str(files[0])))          # the same file named again: an equal but distinct object (what passing the path twice gives)
    if outer == 0:
        return list(elems)
    if outer == 1:
        return tuple(elems)
    return {"k%d" % i: e for i, e in enumerate(elems)}

def _walk(a, b, path, pairs, errs):
    """a: original value, b: staged value"""
    if isinstance(a, File):
        if not isinstance(b, File):
            errs.append("%s: file replaced by %r" % (path, b))
        else:
            pairs.append((a, b))
        return
    if type(a) is not type(b):
        errs.append("%s: container type %s became %s" % (path, type(a).__name__, type(b).__name__))
        return
    if isinstance(a, dict):
        if list(a) != list(b):
            errs.append("%s: keys %r became %r" % (path, list(a), list(b)))
            return
        for k in a:
            _walk(a[k], b[k], path + "[%r]" % k, pairs, errs)
    elif isinstance(a, (list, tuple)):
        if len(a) != len(b):
            errs.append("%s: length %d became %d" % (path, len(a), len(b)))
            return
        for i, (x, y) in enumerate(zip(a, b)):
            _walk(x, y, path + "[%d]" % i, pairs, errs)
    elif a != b:
        errs.append("%s: value %r became %r" % (path, a, b))

from pydra.compose import shell
from pydra.engine.job import Job
Job._etelemetry_version_data = {}          # the version look-up would go to the network
from pydra.engine.submitter import Submitter
_MODES = [File.CopyMode.any, File.CopyMode.copy, File.CopyMode.link]
_TASKS = {}
for _m1 in range(3):
    for _m2 in range(3):
        for _l in (False, True):
            _TASKS[(_m1, _m2, _l)] = shell.define("echo", inputs={
                "f1": shell.arg(type=File, copy_mode=_MODES[_m1], argstr="", position=1),
                "n": shell.arg(type=int, argstr="-n", default=3),
                "f2": shell.arg(type=list[File] if _l else File, copy_mode=_MODES[_m2], argstr="", position=2)}, name="T%d%d%d" % (_m1, _m2, _l))

def _c34_job(m1, m2, pick2, as_list):
    """Job.inputs of a shell task with two file fields of copy modes m1, m2; f2 is files[pick2] (0 = the file also given to f1,
    as an equal but distinct object), optionally inside a list"""
    base = E.scratch()
    try:
        files = []
        for i, (d, n) in enumerate([("d0", "a.txt"), ("d1", "b.txt"), ("d2", "a.txt")]):
            os.makedirs(os.path.join(base, d))
            p = os.path.join(base, d, n)
            open(p, "w").write("content-%d" % i)
            files.append(File(p))
        v2 = File(str(files[pick2]))
        task = _TASKS[(m1, m2, bool(as_list))](f1=files[0], f2=[v2] if as_list else v2)
        cache = os.path.join(base, "cache")
        os.makedirs(cache)
        desc = "task with f1 (mode %s) = %s, f2 (mode %s) = %s%s" % (["any", "copy", "link"][m1], files[0].fspath.name, ["any", "copy", "link"][m2],
                                                                     "the same file" if pick2 == 0 else "files[%d]" % pick2, " in a list" if as_list else "")
        with Submitter(cache_root=cache, worker="debug") as sub:
            job = Job(task, submitter=sub, name="j")
            os.makedirs(job.cache_dir)
            try:
                inp = job.inputs
            except FileExistsError:
                T.reach()
                return None            # refusing a clash is an error, not a mis-staging
        T.reach()
        if inp["n"] != 3:
            return "%s: non-file input n became %r" % (desc, inp["n"])
        for name, src, mode in (("f1", files[0], m1), ("f2", files[pick2], m2)):
            got = inp[name]
            if name == "f2" and as_list:
                if not (isinstance(got, list) and len(got) == 1):
                    return "%s: list value of f2 became %r" % (desc, got)
                got = got[0]
            if not isinstance(got, File):
                return "%s: %s became %r" % (desc, name, got)
            dst, srcp = str(got), str(src)
            if open(dst).read() != open(srcp).read():
                return "%s: %s staged content differs" % (desc, name)
            same = os.path.samefile(srcp, dst)
            if mode == 1 and same:
                return "%s: %s has copy mode 'copy' but the job sees the original file itself (%s)" % (desc, name, dst)
            if mode == 2 and not same:
                return "%s: %s has copy mode 'link' but the job sees an independent copy (%s)" % (desc, name, dst)
            if mode != 0 and not dst.startswith(str(job.cache_dir) + os.sep):
                return "%s: %s staged outside the job directory: %s" % (desc, name, dst)
        return None
    finally:
        E.cleanup(base)

from pydra.compose import python as _py
import vf.rec as _R

def _pf_body(f, n=3):
    import vf.rec as R
    R.rec("PF", [str(x) for x in f] if isinstance(f, list) else str(f), n)
    return n

_PYTASKS = {}
for _m in range(3):
    for _l in (False, True):
        _PYTASKS[(_m, _l)] = _py.define(_pf_body, inputs={"f": _py.arg(type=list[File] if _l else File, copy_mode=_MODES[_m]), "n": _py.arg(type=int, default=3)},
                                        outputs={"out": int}, name="PF%d%d" % (_m, _l))

def _c34_python(mode, as_list):
    """a python task with a file input of the given copy mode: the function must see the file staged accordingly"""
    base = E.scratch()
    try:
        os.makedirs(os.path.join(base, "d0"))
        p = os.path.join(base, "d0", "a.txt")
        open(p, "w").write("content-0")
        src = File(p)
        cache = os.path.join(base, "cache")
        os.makedirs(cache)
        del _R.LOG[:]
        task = _PYTASKS[(mode, bool(as_list))](f=[src] if as_list else src)
        task(cache_root=cache, worker="debug")
        T.reach()
        seen = [ev for ev in _R.LOG if ev[0] == "PF"]
        desc = "python task with a file input of copy mode %s%s" % (["any", "copy", "link"][mode], " in a list" if as_list else "")
        if len(seen) != 1:
            return "%s: function executed %d times" % (desc, len(seen))
        got = seen[0][1]
        if as_list:
            if not (isinstance(got, list) and len(got) == 1):
                return "%s: the function received %r" % (desc, got)
            got = got[0]
        if open(got).read() != "content-0":
            return "%s: content of %s differs" % (desc, got)
        same = os.path.samefile(p, got)
        if mode == 1 and same:
            return "%s: the function received the original file itself (%s)" % (desc, got)
        if mode == 2 and not same:
            return "%s: the function received an independent copy (%s)" % (desc, got)
        if mode != 0 and not got.startswith(cache + os.sep):
            return "%s: the file handed to the function is outside the job directory: %s" % (desc, got)
        return None
    finally:
        E.cleanup(base)

def _c34(codes, outer, copy_mode, cifs):
    base = E.scratch()
    try:
        files = []
        for i, (d, n) in enumerate([("d0", "a.txt"), ("d1", "b.txt"), ("d2", "a.txt")]):       # files[0] and files[2] share their name
            os.makedirs(os.path.join(base, d))
            p = os.path.join(base, d, n)
            open(p, "w").write("content-%d" % i)
            files.append(File(p))
        dest = os.path.join(base, "jobdir")
        os.makedirs(dest)
        value = _build(codes, files, outer)
        mode = [File.CopyMode.any, File.CopyMode.copy, File.CopyMode.link][copy_mode]
        table = [(base, "cifs")] if cifs else []
        with MI.patch_table(table):
            staged = copy_nested_files(value, dest, mode=mode)
        T.reach()
        pairs, errs = [], []
        _walk(value, staged, "value", pairs, errs)
        desc = "value %r mode %s%s" % (value, ["any", "copy", "link"][copy_mode], " on CIFS" if cifs else "")
        if errs:
            return "%s: %s" % (desc, errs[0])
        by_src = {}
        for src, dst in pairs:
            by_src.setdefault(str(src), set()).add(str(dst))
        for src, dsts in by_src.items():
            if len(dsts) != 1:
                return "%s: %s staged %d times: %s" % (desc, src, len(dsts), sorted(dsts))
        alld = [next(iter(d)) for d in by_src.values()]
        if len(set(alld)) != len(alld):
            return "%s: distinct files staged to the same destination %s" % (desc, alld)
        for src, dsts in by_src.items():
            dst = next(iter(dsts))
            if copy_mode == 0 and dst == src:
                continue            # mode 'any' may leave the file where it is
            if os.path.dirname(dst) != dest and not dst.startswith(dest + os.sep):
                return "%s: %s staged outside the job directory: %s" % (desc, src, dst)
            if open(dst).read() != open(src).read():
                return "%s: staged content differs for %s" % (desc, src)
            same = os.path.samefile(src, dst)
            if copy_mode == 1 and same:
                return "%s: copy mode 'copy' but %s is the same file as the original" % (desc, dst)
            if copy_mode == 2 and not same:
                return "%s: copy mode 'link' but %s is not a link to the original" % (desc, dst)
            if cifs and os.path.islink(dst):
                return "%s: symlink created on a CIFS mount: %s" % (desc, dst)
        for i, f in enumerate(files):
            if open(str(f)).read() != "content-%d" % i:
                return "%s: original %s was modified" % (desc, f)
        return None
    finally:
        E.cleanup(base)
'''


def build(tier, seed, exclude):
    g = Gen("C34", exclude)
    g.raw(HELPERS)
    quick = tier == "quick"
    to = 60 if quick else 300
    for outer in range(3):
        # the three element kinds come from one scrambled code (consecutive codes give unrelated shapes)
        g.cond(f"h_shape_outer{outer}", "sd: int, n: int, copy_mode: int, cifs: bool", ["0 <= sd < 512 and 1 <= n <= 3 and 0 <= copy_mode <= 2"], f"""
            codes = T.decode(T.real(sd), 3, 8)[:T.real(n)]
            err = _c34(codes, {outer}, T.real(copy_mode), T.real(cifs))
            return T.fail(err) if err else True
        """, timeout=to)
        # the same file at two places of the value (same object, equal object, inside an inner list/tuple); a third element of any kind
        g.cond(f"h_repeat_outer{outer}", "c: int, pos: int, cifs: bool, k1: int, k2: int, copy_mode: int",
               ["0 <= c <= 7 and 0 <= pos <= 3 and 0 <= k1 < 4 and 0 <= k2 < 4 and 0 <= copy_mode <= 2"], f"""
            c, pos, cifs = T.real(c), T.real(pos), T.real(cifs)
            codes = [[2, 7, 5, 6][T.real(k1)], [2, 7, 5, 6][T.real(k2)]]
            if pos < 3:
                codes.insert(pos, c)
            err = _c34(codes, {outer}, T.real(copy_mode), cifs)
            return T.fail(err) if err else True
        """, timeout=to)
    for as_list in (False, True):
        g.cond(f"h_job_inputs_{'list' if as_list else 'bare'}", "m1: int, m2: int, pick2: int", ["0 <= m1 <= 2 and 0 <= m2 <= 2 and 0 <= pick2 <= 2"], f"""
            err = _c34_job(T.real(m1), T.real(m2), T.real(pick2), {as_list})
            return T.fail(err) if err else True
        """, timeout=to)
    g.cond("h_python_task_inputs", "mode: int, as_list: bool", ["0 <= mode <= 2"], """
        err = _c34_python(T.real(mode), T.real(as_list))
        return T.fail(err) if err else True
    """, timeout=to)
    g.cond("twin_c34", "c0: int", ["2 <= c0 <= 4"], """
        err = _c34([T.real(c0)], 0, 1, False)
        return False
    """, timeout=60, kind="twin")
    return g.spec(bounds={"outer container": "list / tuple / dict", "elements": "1-3 of 8 kinds (int, str, three files, inner list, inner tuple, an equal but distinct object for the first file)", "job inputs": "two file fields x 3 copy modes each, same / different file, bare or in a list",
                          "copy mode": "any / copy / link", "mount": "plain / CIFS (patched mount table)"})
