"""C11 At-most-once execution per identity; rerun and read-only caches as documented."""
from vf.core import Gen

META = dict(
    functions_encoded=["pydra.engine.job.Job.run (early return, rerun)", "Job.result", "Job.done", "Job.all_caches", "Job._populate_filesystem",
                       "pydra.engine.result.load_result", "save", "pydra.engine.submitter.Submitter.__call__", "Submitter.expand_workflow "
                       "(rerun and propagate_rerun)"],
    stubs=["vf/engine.py", "pre-states are built on the real file system from entries produced by real runs (complete / errored), truncated or "
           "stripped by the harness"],
    outside=["concurrent submitters (C10)", "more than two read-only caches", "real pickles truncated at arbitrary byte offsets (0, 2, half and all-but-one byte are used)"],
    assumptions=["inductive step: the pre-state of every listed cache location is an arbitrary member of the entry-state set "
                 "{absent, empty dir, job record only, zero-byte / two-byte / half / all-but-one-byte result, errored result, complete result}; the post-state "
                 "is in the same set, so histories of any length are covered by one step"],
)

HELPERS = '''
from vf.hl import eng as EN
import pydra.engine.job as JB
import pydra.engine.result as RS
T.assert_repo(JB, RS)
'''


def build(tier, seed, exclude):
    g = Gen("C11", exclude)
    g.raw(HELPERS)
    quick = tier == "quick"
    to = 110 if quick else 600
    # partition by the cache-root state so that the cores share the space; the rest stays symbolic
    for s0 in range(9):
        for n_ro in (0, 1, 2):
            params = {0: "rerun: bool", 1: "s1: int, rerun: bool", 2: "s1: int, s2: int, rerun: bool"}[n_ro]
            pre = {0: "True", 1: "0 <= s1 < 9", 2: "0 <= s1 < 9 and 0 <= s2 < 9"}[n_ro]
            sts = {0: f"[{s0}, 0, 0]", 1: f"[{s0}, T.real(s1), 0]", 2: f"[{s0}, T.real(s1), T.real(s2)]"}[n_ro]
            g.cond(f"h_step_root{s0}_ro{n_ro}", params, [pre], f"""
                err = EN.c11({sts}, {n_ro}, T.real(rerun), 1)
                return T.fail(err) if err else True
            """, timeout=to)
    # rerun propagation into a workflow and explicit short histories (witness that pre-states are reachable)
    g.cond("h_history", "r1: bool, r2: bool, r3: bool, prop: bool, fail_first: bool", ["True"], """
        err = EN.c11_history([T.real(r1), T.real(r2), T.real(r3)], T.real(prop), T.real(fail_first))
        return T.fail(err) if err else True
    """, timeout=to)
    # rerun with and without propagation into nested workflows, both loops
    g.cond("h_nested_rerun", "use_async: bool, prop: bool", ["True"], """
        err = EN.c11_nested_rerun(T.real(use_async), T.real(prop))
        return T.fail(err) if err else True
    """, timeout=to)
    # node-level hits in a read-only cache given as an absolute or a relative path
    g.cond("h_readonly_node_hits", "relative: bool, x: int", ["1 <= x <= 2"], """
        err = EN.c11_node_hits_in_readonly_cache(T.real(relative), T.real(x))
        return T.fail(err) if err else True
    """, timeout=to)
    # rerun of a workflow with a split node under a concurrency limit: every job has to be executed again
    pre_r = ["1 <= n <= 3 and 0 <= k <= 3"]
    if "C11-rerun-truncated-by-max-concurrent" in exclude:
        pre_r.append("k == 0 or k >= n")          # recorded finding: a finite limit smaller than the node's job count
    g.cond("h_rerun_split_limited", "n: int, k: int", pre_r, """
        kk = T.real(k)
        err = EN.split_resubmission(T.real(n), None if kk == 0 else kk, "rerun")
        return T.fail(err) if err else True
    """, timeout=to)
    g.witness("w_rerun_limited", """
        err = EN.split_resubmission(2, 1, "rerun")
        return T.fail(err) if err else True
    """)
    g.cond("twin_c11", "rerun: bool", ["True"], """
        err = EN.c11([6, 0, 0], 0, T.real(rerun), 1)
        return False
    """, timeout=120, kind="twin")
    return g.spec(bounds={"cache locations": "cache root + 0-2 read-only caches", "entry states": 9, "history length": 3})
