"""C04 Splitting nested containers visits every inner element."""
from vf.core import Gen

META = dict(
    functions_encoded=["pydra.engine.state.input_shape", "flatten", "map_splits", "State.container_ndim_all",
                       "State._processing_terms", "State._single_op_splits", "State.splits", "State.prepare_states",
                       "pydra.compose.base.task.Task.split(container_ndim=...) (L2 condition)"],
    stubs=["L1: none", "L2: vf/engine.py"],
    outside=["depth > 3, inner lengths > 3 (depth 2) / > 2 (depth 3)", "non-list containers (tuples, arrays)"],
    assumptions=["for an inner product the two operands must offer the same number of depth-n elements; pydra may additionally "
                 "insist on equal nested shapes (not judged)"],
)

HELPERS = '''
import copy
from pydra.engine import state as ST
T.assert_repo(ST)

def _leaves(v, n):
    """elements found at depth n, depth first"""
    if n == 0:
        return [v]
    out = []
    for x in v:
        if isinstance(x, list) and n > 1:
            out += _leaves(x, n - 1)
        else:
            out.append(x)
    return out

def _mat(v, depth):
    """materialise list spines (keeps leaf values symbolic)"""
    if depth == 0:
        return v
    return [_mat(x, depth - 1) for x in v]

def _regular(v, n):
    if n <= 1:
        return True
    lens = {len(x) for x in v}
    return len(lens) <= 1 and all(_regular(x, n - 1) for x in v)

def _c04(x, depth, ndim, other=None, inner=False):
    x = _mat(x, depth)
    want = _leaves(x, ndim)
    ins = {"N.x": x}
    spl = "N.x"
    cnd = {"N.x": ndim}
    if other is not None:
        other = list(other)
        ins["N.y"] = other
        spl = ("N.x", "N.y") if inner else ["N.x", "N.y"]
    got = err = None
    try:
        st = ST.State("N", splitter=copy.deepcopy(spl), container_ndim=dict(cnd))
        st.prepare_states(inputs=ins, container_ndim=dict(cnd))
        got = st.states_val
    except Exception as e:
        err = e
    T.reach()
    if other is None:
        exp = [{"N.x": w} for w in want]
    elif inner:
        if len(other) != len(want):
            return None if got is None else "inner product of %d and %d elements accepted" % (len(want), len(other))
        if got is None and ndim > 1:
            return None      # pydra's nested-shape rule for inner products (not judged)
        exp = [{"N.x": w, "N.y": o} for w, o in zip(want, other)]
    else:
        exp = [{"N.x": w, "N.y": o} for w in want for o in other]
    if got is None:
        return "well-formed nested split rejected: %r" % (err,)
    if len(got) != len(exp):
        return "x=%r container_ndim=%d: %d jobs, %d elements at that depth" % (x, ndim, len(got), len(exp))
    for k in range(len(exp)):
        for key in exp[k]:
            if not (got[k][key] == exp[k][key]):
                return "x=%r container_ndim=%d: job %d gets %s=%r, expected element %r" % (x, ndim, k, key, got[k][key], exp[k][key])
    return None

def _lens2(x):
    return len(x) <= 3 and all(len(r) <= 3 for r in x)

def _lens3(x):
    return len(x) <= 2 and all(len(r) <= 2 and all(len(s) <= 2 for s in r) for r in x)

def _is_ragged(x, ndim):
    x = x if isinstance(x, list) else list(x)
    return not _regular(_mat(x, ndim), ndim)
'''


def build(tier, seed, exclude):
    g = Gen("C04", exclude)
    g.raw(HELPERS)
    quick = tier == "quick"
    to = 25 if quick else 120
    ex = "C04-ragged" in exclude
    def pre_ex(d, n):
        return [f"not _is_ragged(x, {n})"] if ex and n > 1 else []
    for ndim in (1, 2):
        g.cond(f"h_d2_n{ndim}", "x: List[List[int]]", ["_lens2(x)"] + pre_ex(2, ndim), f"""
            err = _c04(x, 2, {ndim})
            return T.fail(err) if err else True
        """, timeout=to)
        g.cond(f"h_d2_n{ndim}_outer", "x: List[List[int]], y: List[int]", ["_lens2(x) and len(y) <= 2"] + pre_ex(2, ndim), f"""
            err = _c04(x, 2, {ndim}, other=y, inner=False)
            return T.fail(err) if err else True
        """, timeout=to)
        g.cond(f"h_d2_n{ndim}_inner", "x: List[List[int]], y: List[int]", ["_lens2(x) and len(y) <= 4"] + pre_ex(2, ndim), f"""
            err = _c04(x, 2, {ndim}, other=y, inner=True)
            return T.fail(err) if err else True
        """, timeout=to)
    for ndim in (1, 2, 3):
        g.cond(f"h_d3_n{ndim}", "x: List[List[List[int]]]", ["_lens3(x)"] + pre_ex(3, ndim), f"""
            err = _c04(x, 3, {ndim})
            return T.fail(err) if err else True
        """, timeout=to * 2)
    g.cond("twin_c04", "x: List[List[int]]", ["_lens2(x)"], """
        err = _c04(x, 2, 2)
        return False
    """, timeout=30, kind="twin")
    g.witness("w_ragged", """
        err = _c04([[1, 2], [3]], 2, 2)
        return T.fail(err) if err else True
    """)
    return g.spec(bounds={"depth": "2-3", "inner lengths": "0-3 (depth 2), 0-2 (depth 3)", "container_ndim": "1..depth",
                          "context": "alone, [x, y], (x, y)"})
