"""C22 Shell argument vector follows the documented field semantics."""
import random

from vf.core import Gen
from vf.hl import shelldefs as SD

META = dict(
    functions_encoded=["pydra.compose.shell.task.ShellTask._command_args", "_command_pos_args", "_format_arg", "split_cmd",
                       "pydra.utils.general.position_sort", "pydra.compose.shell.templating.argstr_formatting", "parse_format_string",
                       "pydra.compose.shell.builder.define (dynamic definitions)"],
    stubs=[],
    outside=["string values outside the safe pool (C23 owns arbitrary characters)", "formatter callables, File-typed fields, "
             "more than 4 fields with list kinds (wide definitions use str / int / flag fields only), lists longer than 3", "empty strings ('set' is ambiguous for them)"],
    assumptions=["string elements are drawn by symbolic index from a pool of shell-safe tokens; ints are unbounded symbolic; "
                 "field definitions are generated concretely (seeded) and fixed per condition"],
)

HELPERS = '''
import attrs
from pydra.compose import shell
import pydra.compose.shell.task as STK
import pydra.utils.general as GEN
from vf.hl import shelldefs as SD
from vf.oracles import argv as AO
T.assert_repo(STK, GEN)

def _argv(task_cls, specs, raw, append=()):
    vals = {s["name"]: SD.to_value(s, r) for s, r in zip(specs, raw)}
    t = task_cls(**vals, append_args=list(append))
    values = {k: v for k, v in attrs.asdict(t, recurse=False).items() if not k.startswith("_")}
    got = t._command_args(values=values)
    T.reach()
    want = AO.argv("prog", specs, vals, append)
    if list(got) != want:
        return "fields %s values %r: argv %r, documented semantics give %r" % (
            [(s["name"], s["kind"], s["argstr"], s["position"], s.get("sep")) for s in specs], vals, list(got), want)
    return None
'''


def build(tier, seed, exclude):
    g = Gen("C22", exclude)
    g.raw(HELPERS)
    quick = tier == "quick"
    rnd = random.Random(seed)
    ndefs = 24 if quick else 120
    to = 15 if quick else 60
    for d in range(ndefs):
        specs = SD.gen_specs(rnd, rnd.choice([2, 3, 3, 4, 4]), compact=("C22-gap-filling" in exclude))
        g.raw(f"_SPECS{d} = {specs!r}\n_TASK{d} = SD.make_task(_SPECS{d}, name='Gen{d}')")
        params = ", ".join(f"{s['name']}: {SD.annotation(s)}" for s in specs) + ", extra: bool"
        pre = [" and ".join(SD.precondition(s, s["name"]) for s in specs)]
        if "C22-falsy-number" in exclude:
            nums = [s["name"] for s in specs if s["kind"] == "int"]
            if nums:
                pre.append(" and ".join(f"{n} != 0" for n in nums))
        raw = "[" + ", ".join(s["name"] for s in specs) + "]"
        g.cond(f"h_def{d:03d}", params, pre, f"""
            err = _argv(_TASK{d}, _SPECS{d}, {raw}, ["--tail"] if extra else [])
            return T.fail(err) if err else True
        """, timeout=to)
    # wide definitions (9-12 fields, most explicitly positioned, 2-4 unpositioned in between) and definitions in which a template
    # also names the first element of another, list-valued field
    nwide, nxref = (4, 6) if quick else (16, 30)
    extra_defs = [("wide", SD.gen_wide_specs(rnd)) for _ in range(nwide)] + [("xref", SD.gen_xref_specs(rnd, rnd.choice([2, 3, 4]))) for _ in range(nxref)]
    for d, (kind, specs) in enumerate(extra_defs):
        tag = f"{kind}{d:02d}"
        g.raw(f"_SPECS_{tag} = {specs!r}\n_TASK_{tag} = SD.make_task(_SPECS_{tag}, name='Gen_{tag}')")
        params = ", ".join(f"{s['name']}: {SD.annotation(s)}" for s in specs)
        pre = [" and ".join(SD.precondition(s, s["name"]) for s in specs)]
        if "C22-falsy-number" in exclude:
            nums = [s["name"] for s in specs if s["kind"] == "int"]
            if nums:
                pre.append(" and ".join(f"{n} != 0" for n in nums))
        refs = [s["xref"] for s in specs if s.get("xref")]
        if refs:
            pre.append(" and ".join(f"len({r}) >= 1" for r in refs))        # the referenced list is set and non-empty
        raw = "[" + ", ".join(s["name"] for s in specs) + "]"
        g.cond(f"h_{tag}", params, pre, f"""
            err = _argv(_TASK_{tag}, _SPECS_{tag}, {raw}, [])
            return T.fail(err) if err else True
        """, timeout=to * 2)
    # position_sort on its own: arbitrary positions
    g.cond("h_position_sort", "ps: List[Optional[int]]", ["len(ps) <= 5", "len(set(p for p in ps if p is not None)) == len([p for p in ps if p is not None])"], """
        ps = list(ps)
        got = GEN.position_sort([(p, "t%d" % i) for i, p in enumerate(ps)])
        T.reach()
        pos = sorted((p, i) for i, p in enumerate(ps) if p is not None and p >= 0)
        neg = sorted((p, i) for i, p in enumerate(ps) if p is not None and p < 0)
        want = ["t%d" % i for _, i in pos] + ["t%d" % i for i, p in enumerate(ps) if p is None] + ["t%d" % i for _, i in neg]
        if got != want:
            return T.fail(lambda: "position_sort(%r) -> %r, expected %r" % (ps, got, want))
        return True
    """, timeout=to * 2)
    g.cond("twin_c22", "fa: bool", ["True"], """
        specs = [dict(kind="flag", argstr="-a", name="fa", position=None)]
        err = _argv(SD.make_task(specs, name="Tw"), specs, [fa])
        return False
    """, timeout=30, kind="twin")
    g.witness("w_gap_filling", """
        specs = [dict(kind="str", argstr="", name="fa", position=2), dict(kind="str", argstr="", name="fb", position=None),
                 dict(kind="str", argstr="", name="fc", position=None)]
        err = _argv(SD.make_task(specs, name="WG"), specs, [0, 1, 2])
        return T.fail(err) if err else True
    """)
    g.witness("w_falsy_number", """
        specs = [dict(kind="int", argstr="-n", name="fa", position=None)]
        err = _argv(SD.make_task(specs, name="W0"), specs, [0])
        return T.fail(err) if err else True
    """)
    return g.spec(bounds={"definitions": ndefs, "fields per definition": "2-4 (plus wide definitions with 9-12 fields and definitions with a cross-referencing template)", "list lengths": "0-3", "ints": "unbounded",
                          "string tokens": SD.POOL})
