"""C24 The displayed command line is a faithful rendering of the executed argv."""
from vf.core import Gen
from vf.props import C23

META = dict(
    functions_encoded=["pydra.compose.shell.task.ShellTask.cmdline", "ShellTask._command_args", "_format_arg", "split_cmd",
                       "pydra.compose.shell.templating.template_update (no output templates in these definitions)"],
    stubs=[],
    outside=["strings longer than 3/4 characters", "POSIX word splitting is shlex.split(posix=True) (no parameter expansion, globbing "
             "or operators: a displayed '$x' or ';' is taken literally, as the executed argv would pass it)"],
    assumptions=["the executed argv is what ShellTask._command_args returns for the task's values"],
)

HELPERS = C23.HELPERS + '''
import shlex

def _c24(field, s, extra=None):
    try:
        t, argv = _argv_of(field, s)
    except Exception:
        T.reach()
        return None                 # argv cannot be built: C23's subject
    if extra is not None:
        t = attrs.evolve(t, append_args=[extra])
        values = {k: x for k, x in attrs.asdict(t, recurse=False).items() if not k.startswith("_")}
        try:
            argv = t._command_args(values=values)
        except Exception:
            T.reach()
            return None
    line = t.cmdline
    T.reach()
    try:
        back = shlex.split(line)
    except ValueError as e:
        return "%s=%r: cmdline %r cannot be parsed by a POSIX shell (%s); argv is %r" % (field, s, line, e, list(argv))
    if back != list(argv):
        return "%s=%r: cmdline %r splits into %r but the executed argv is %r" % (field, s, line, back, list(argv))
    return None

def _c24_exe(parts, as_list):
    """the executable itself: one string, or a list of parts (multi-part command)"""
    exe = list(parts) if as_list else parts[0]
    try:
        t = _Str(executable=exe, plain="v")
        values = {k: x for k, x in attrs.asdict(t, recurse=False).items() if not k.startswith("_")}
        argv = t._command_args(values=values)
    except Exception:
        T.reach()
        return None
    line = t.cmdline
    T.reach()
    try:
        back = shlex.split(line)
    except ValueError as e:
        return "executable %r: cmdline %r cannot be parsed by a POSIX shell (%s); argv is %r" % (exe, line, e, list(argv))
    if back != list(argv):
        return "executable %r: cmdline %r splits into %r but the executed argv is %r" % (exe, line, back, list(argv))
    return None

def _c24_class(argv):
    """the recorded finding, exactly: argv for which quoting *only* arguments that contain a space (in single quotes) cannot give a
    line that POSIX-splits back into argv (empty arguments, quotes, backslashes, other white space - unless they happen to survive, as
    '"a b"' does inside the added single quotes).  Everything the space-only scheme does render correctly stays under check."""
    ref = " ".join(("'" + a + "'") if " " in a else a for a in argv)
    try:
        return shlex.split(ref) != list(argv)
    except ValueError:
        return True
'''


def build(tier, seed, exclude):
    g = Gen("C24", exclude)
    g.raw(HELPERS)
    quick = tier == "quick"
    n = 3 if quick else 4
    to = 25 if quick else 120
    known = "C24-space-only-quoting" in exclude
    for f in C23.FIELDS:
        pre = [f"1 <= len(s) <= {n}"]
        body = f"""
            err = _c24({f!r}, s)
            if err and {known}:
                try:
                    if _c24_class(_argv_of({f!r}, s)[1]):
                        return True          # recorded finding C24-space-only-quoting
                except Exception:
                    return True
            return T.fail(err) if err else True
        """
        g.cond(f"h_{f}", "s: str", pre, body, timeout=to)
    # append_args go to the argv unparsed, so every character class reaches cmdline
    pre = [f"1 <= len(s) <= {n}"]
    g.cond("h_append_args", "s: str", pre, f"""
        err = _c24("plain", "v", extra=s)
        if err and {known} and _c24_class([s]):
            return True          # recorded finding C24-space-only-quoting
        return T.fail(err) if err else True
    """, timeout=to)
    # partition of the same space: arguments that mix a blank with quote characters (the region where the added single quotes and the
    # argument's own quotes interact; without the partition the 25 s search rarely reaches it)
    qpre = [f"2 <= len(s) <= {n + 1}", "' ' in s", "s[0] == chr(34) or s[0] == chr(39) or s[-1] == chr(34) or s[-1] == chr(39)"]
    g.cond("h_append_args_blank_and_quote", "s: str", qpre, f"""
        err = _c24("plain", "v", extra=s)
        if err and {known} and _c24_class([s]):
            return True          # recorded finding C24-space-only-quoting
        return T.fail(err) if err else True
    """, timeout=to)
    # the same space over a small alphabet of the characters quoting is about: the solver picks indices, the argument is built from them
    g.cond("h_append_args_pool", "i0: int, i1: int, i2: int", ["0 <= i0 < 4 and 0 <= i1 < 5 and 0 <= i2 < 5"], f"""
        pool = [chr(34), " ", chr(39), "a", ""]
        s = pool[T.real(i0)] + pool[T.real(i1)] + pool[T.real(i2)]
        err = _c24("plain", "v", extra=s)
        if err and {known} and _c24_class([s]):
            return True          # recorded finding C24-space-only-quoting
        return T.fail(err) if err else True
    """, timeout=to * 5)
    # the executable: a single string, and the parts of a multi-part command given as a list
    for nm, call, argv in (("h_executable_str", "_c24_exe([s], False)", "[s]"), ("h_executable_list_first", "_c24_exe([s, 'run'], True)", "[s]"),
                           ("h_executable_list_second", "_c24_exe(['prog', s], True)", "[s]")):
        g.cond(nm, "s: str", pre, f"""
            err = {call}
            if err and {known} and _c24_class([s]):
                return True          # recorded finding C24-space-only-quoting
            return T.fail(err) if err else True
        """, timeout=to)
    g.cond("twin_c24", "s: str", ["1 <= len(s) <= 2"], """
        err = _c24("plain", s)
        return False
    """, timeout=30, kind="twin")
    g.witness("w_quote_in_arg", """
        err = _c24("plain", "v", extra="it's")
        return T.fail(err) if err else True
    """)
    return g.spec(bounds={"string length": f"1-{n}", "alphabet": "all of Unicode", "field kinds": C23.FIELDS + ["append_args", "executable (string / list parts)"], "append_args alphabet conditions": "blank+quote partition (length <= n+1); index pool {double quote, blank, single quote, a, nothing}^3 (100 arguments)"})
