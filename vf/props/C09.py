"""C09 File hashes always reflect current file content."""
from vf.core import Gen

META = dict(
    functions_encoded=["pydra.utils.hash.bytes_repr_fileset", "hash_single (persistent-key branch)", "PersistentCache.get_or_calculate_hash",
                       "hash_object / Cache", "fileformats File.byte_chunks on a real file (h_real_history)"],
    stubs=["SymFile/SymPath: duck-typed file set handed to the real bytes_repr_fileset; lstat() returns symbolic mtime/ctime/size/inode, "
           "byte_chunks() yields the current symbolic content", "IdealHash for blake2b (also names the persistent cache entries)",
           "persistent cache directory: a scratch directory on the real file system"],
    outside=["directories deeper than two levels", "content longer than 3 bytes", "the operating system's time-stamp semantics beyond "
             "the stated contract (ctime never decreases; any write, rename or utime sets ctime to the current coarse clock)"],
    assumptions=["the state abstraction: an arbitrary persistent cache produced by one earlier hashing of the same path, then an arbitrary "
                 "current file state; every real history (writes, renames, copies, utime) ends in such a pair of states"],
)

HELPERS = '''
import os, shutil, time
from pathlib import Path
import pydra.utils.hash as H
from vf.hl import hashing as HH
import vf.engine as E
T.assert_repo(H)
HH.install()
HH.register_symfile()

def _sym_history(c0, c1, st0, st1, fresh_session):
    """hash once in state 0, change to state 1, hash again; oracle: hash of state 1 with an empty persistent cache"""
    HH.reset()
    loc, loc2 = E.scratch(), E.scratch()
    try:
        state = {"content": c0, "stat": st0}
        f = HH.SymFile("/data/f.txt", state)
        pc = H.PersistentCache(loc)
        h0 = H.hash_object(f, persistent_cache=pc)
        state["content"], state["stat"] = c1, st1
        if fresh_session:
            pc = H.PersistentCache(loc)          # new process: in-memory table empty, directory kept
        h1 = H.hash_object(f, persistent_cache=pc)
        want = H.hash_object(f, persistent_cache=H.PersistentCache(loc2))
    finally:
        E.cleanup(loc); E.cleanup(loc2)
    T.reach()
    if h1 != want:
        return "content %r (stat %r) then %r (stat %r): second hash is stale (equals first: %s)" % (c0, st0, c1, st1, h1 == h0)
    return None

class _Crash(Exception):
    pass

def _crash_history(c0, cut):
    """the process dies while the persistent entry for the file's hash is being written (after `cut` bytes); a later session
    hashes the same, unchanged file and must get the hash a fresh cache gives"""
    import pathlib
    HH.reset()
    loc, loc2 = E.scratch(), E.scratch()
    real_wb = pathlib.Path.write_bytes
    def dying_write(self, data):
        if str(self).startswith(loc):
            with open(self, "wb") as fp:
                fp.write(bytes(data)[:min(cut, max(len(data) - 1, 0))])
            raise _Crash()
        return real_wb(self, data)
    try:
        state = {"content": c0, "stat": (5, 5, len(c0), 7)}
        f = HH.SymFile("/data/f.txt", state)
        pathlib.Path.write_bytes = dying_write
        crashed = False
        try:
            H.hash_object(f, persistent_cache=H.PersistentCache(loc))
        except _Crash:
            crashed = True
        finally:
            pathlib.Path.write_bytes = real_wb
        for lk in os.listdir(loc):
            if lk.endswith(".lock"):
                os.unlink(os.path.join(loc, lk))          # the dead process's lock is gone (filelock breaks stale locks)
        h1 = H.hash_object(f, persistent_cache=H.PersistentCache(loc))
        want = H.hash_object(f, persistent_cache=H.PersistentCache(loc2))
    finally:
        pathlib.Path.write_bytes = real_wb
        E.cleanup(loc); E.cleanup(loc2)
    T.reach()
    if not crashed:
        return "the crash point was not reached (the entry is no longer written through Path.write_bytes)"
    if h1 != want:
        return "content %r, process died after writing %d byte(s) of the persistent entry: a later session gets hash %r, a fresh cache gives %r" % (c0, cut, bytes(h1), bytes(want))
    return None

def _real_dir_history(op, same_size):
    """a real Directory input: change something inside it between two hashings"""
    from fileformats.generic import Directory
    from crosshair.tracers import NoTracing
    HH.uninstall()
    d, loc, loc2 = E.scratch(), E.scratch(), E.scratch()
    try:
        with NoTracing():
            root = Path(d) / "data"
            (root / "sub").mkdir(parents=True)
            (root / "top.txt").write_bytes(b"TTTT")
            (root / "sub" / "f.txt").write_bytes(b"AAAA")
            H.hash_object(Directory(root), persistent_cache=H.PersistentCache(loc))
            time.sleep(0.03)
            new = b"BBBB" if same_size else b"BBBBBB"
            if op == 0:
                (root / "sub" / "f.txt").write_bytes(new)          # nested file rewritten
            elif op == 1:
                (root / "top.txt").write_bytes(new)                # top-level file rewritten
            elif op == 2:
                (root / "sub" / "g.txt").write_bytes(new)          # file added in a sub-directory
            elif op == 3:
                st = (root / "sub" / "f.txt").stat()
                (root / "sub" / "f.txt").write_bytes(new)
                os.utime(root / "sub" / "f.txt", ns=(st.st_atime_ns, st.st_mtime_ns))
            elif op == 4:
                os.utime(root / "top.txt", None)                   # touched, content unchanged
            h1 = H.hash_object(Directory(root), persistent_cache=H.PersistentCache(loc))
            want = H.hash_object(Directory(root), persistent_cache=H.PersistentCache(loc2))
    finally:
        HH.install()
        for x in (d, loc, loc2):
            E.cleanup(x)
    T.reach()
    if h1 != want:
        return "real directory: history op %d (same_size=%s) leaves a stale hash" % (op, same_size)
    return None

def _same_tick_class(c0, c1, st0, st1):
    return c0 != c1 and tuple(st0) == tuple(st1)

def _real_history(op, same_size):
    """explicit histories on the real file system with a real fileformats File"""
    from fileformats.generic import File
    from crosshair.tracers import NoTracing
    HH.uninstall()
    d, loc, loc2 = E.scratch(), E.scratch(), E.scratch()
    try:
        with NoTracing():
            p = Path(d) / "f.txt"
            p.write_bytes(b"AAAA")
            h0 = H.hash_object(File(p), persistent_cache=H.PersistentCache(loc))
            st = p.stat()
            time.sleep(0.03)
            new = b"BBBB" if same_size else b"BBBBBB"
            if op == 0:                      # plain rewrite
                p.write_bytes(new)
            elif op == 1:                    # rewrite, then restore the old timestamps
                p.write_bytes(new)
                os.utime(p, ns=(st.st_atime_ns, st.st_mtime_ns))
            elif op == 2:                    # write elsewhere, rename over, restore timestamps
                q = Path(d) / "g.txt"
                q.write_bytes(new)
                os.utime(q, ns=(st.st_atime_ns, st.st_mtime_ns))
                os.replace(q, p)
            elif op == 3:                    # timestamp-preserving copy over the file
                q = Path(d) / "g.txt"
                q.write_bytes(new)
                os.utime(q, ns=(st.st_atime_ns, st.st_mtime_ns))
                shutil.copy2(q, p)
            elif op == 4:                    # unchanged content, touched
                os.utime(p, None)
                new = b"AAAA"
            h1 = H.hash_object(File(p), persistent_cache=H.PersistentCache(loc))
            want = H.hash_object(File(p), persistent_cache=H.PersistentCache(loc2))
    finally:
        HH.install()
        for x in (d, loc, loc2):
            E.cleanup(x)
    T.reach()
    if h1 != want:
        return "real file: history op %d (same_size=%s) leaves a stale hash" % (op, same_size)
    return None
'''


def build(tier, seed, exclude):
    g = Gen("C09", exclude)
    g.raw(HELPERS)
    quick = tier == "quick"
    to = 40 if quick else 180
    pre = ["len(c0) <= 3 and len(c1) <= 3", "m0 >= 0 and m1 >= 0 and t0 >= 0 and t1 >= t0 and i0 > 0 and i1 > 0"]
    if "C09-same-tick-rewrite" in exclude:
        pre.append("not (c0 != c1 and len(c0) == len(c1) and m0 == m1 and t0 == t1 and i0 == i1)")
    g.cond("h_sym_history", "c0: bytes, c1: bytes, m0: int, m1: int, t0: int, t1: int, i0: int, i1: int, fresh: bool", pre, """
        c0, c1 = T.real(c0), T.real(c1)
        pattern = [bool(x) for x in (m0 == m1, t0 == t1, i0 == i1, m0 < m1, m0 > t0, m1 > t1, m0 > t1,
                   t0 // 1000000000 == t1 // 1000000000)]     # fork on the relations first (bool() forces the branch), then pick values
        m0, m1, t0, t1, i0, i1 = T.real((m0, m1, t0, t1, i0, i1))
        err = _sym_history(c0, c1, (m0, t0, len(c0), i0), (m1, t1, len(c1), i1), fresh)
        return T.fail(err) if err else True
    """, timeout=to)
    # steered: timestamps restored (mtime equal) -- must still see the new content
    g.cond("h_sym_mtime_restored", "c0: bytes, c1: bytes, m: int, t0: int, t1: int, i0: int, i1: int",
           ["1 <= len(c0) <= 2 and 1 <= len(c1) <= 2 and c0 != c1", "m >= 0 and t0 >= 0 and t1 > t0 and i0 > 0 and i1 > 0"], """
        c0, c1 = T.real(c0), T.real(c1)
        pattern = [bool(x) for x in (i0 == i1, len(c0) == len(c1))]
        m, t0, t1, i0, i1 = T.real((m, t0, t1, i0, i1))
        err = _sym_history(c0, c1, (m, t0, len(c0), i0), (m, t1, len(c1), i1), True)
        return T.fail(err) if err else True
    """, timeout=to)
    # steered: a (future-dated) mtime that stays the same while ctime advances, and ctimes within one second
    g.cond("h_sym_mtime_preserved", "c0: bytes, c1: bytes, m: int, t0: int, t1: int, i: int, rel: int",
           ["len(c0) == len(c1) and 1 <= len(c0) <= 2 and c0 != c1", "m >= 0 and 0 <= t0 < t1 and i > 0 and 0 <= rel < 3"], """
        c0, c1 = T.real(c0), T.real(c1)
        pattern = [bool(x) for x in (m > t1, m > t0, t1 - t0 < 1000000000, t0 // 1000000000 == t1 // 1000000000)]
        m, t0, t1, i = T.real((m, t0, t1, i))
        err = _sym_history(c0, c1, (m, t0, len(c0), i), (m, t1, len(c1), i), True)
        return T.fail(err) if err else True
    """, timeout=to)
    g.cond("h_real_history", "op: int, same_size: bool", ["0 <= op < 5"], """
        err = _real_history(T.real(op), T.real(same_size))
        return T.fail(err) if err else True
    """, timeout=90)
    g.cond("h_real_dir_history", "op: int, same_size: bool", ["0 <= op < 5"], """
        err = _real_dir_history(T.real(op), T.real(same_size))
        return T.fail(err) if err else True
    """, timeout=90)
    # a process that dies while storing the persistent entry
    g.cond("h_crash_while_storing", "c0: bytes, cut: int", ["len(c0) <= 2 and 0 <= cut <= 4"], """
        err = _crash_history(T.real(c0), T.real(cut))
        return T.fail(err) if err else True
    """, timeout=to)
    g.cond("twin_c09", "c0: bytes", ["len(c0) <= 1"], """
        c0 = T.real(c0)
        err = _sym_history(c0, b"zz", (1, 1, len(c0), 1), (2, 2, 2, 1), True)
        return False
    """, timeout=60, kind="twin")
    g.witness("w_same_tick", """
        err = _sym_history(b"AAAA", b"BBBB", (5, 5, 4, 7), (5, 5, 4, 7), True)
        return T.fail(err) if err else True
    """)
    return g.spec(bounds={"content": "<= 3 bytes", "stat fields": "unbounded symbolic ints under the stated OS contract",
                          "real histories": "5 operation kinds x same/different size"})
