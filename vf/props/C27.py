"""C27 Container environments run the native command with remapped, mounted paths."""
from vf.core import Gen

META = dict(
    functions_encoded=["pydra.environments.base.Container.get_bindings / bind", "pydra.environments.docker.Docker.execute",
                       "pydra.environments.singularity.Singularity.execute", "pydra.environments.base.execute / read_and_display",
                       "pydra.compose.shell.task.ShellTask._command_args"],
    stubs=["subprocess.run as seen from pydra.environments.base records the argv and returns rc 0 (no container runtime is started)",
           "file inputs are real empty files created under a scratch directory", "stand-in Job exposing task / inputs / cache_root / cache_dir "
           "(input staging by copy mode is C34's subject: inputs are passed as given)"],
    outside=["docker / singularity themselves", "more than two file inputs plus one list of <= 2 files", "directory names longer than 3 characters"],
    assumptions=["'up to path normalisation': working directory and bind targets are compared after os.path.normpath"],
)

HELPERS = '''
import os, types, attrs
from pathlib import Path
from fileformats.generic import File
from pydra.compose import shell
import pydra.environments.base as B
import pydra.environments.docker as DK
import pydra.environments.singularity as SG
import vf.engine as E
T.assert_repo(B, DK, SG)

Cp = shell.define("tool", inputs={
    "a": shell.arg(type=File, argstr="-a", position=1),
    "b": shell.arg(type=File | None, argstr="-b", default=None, copy_mode=File.CopyMode.copy),
    "many": shell.arg(type=list[File] | None, argstr="-m", default=None),
    "n": shell.arg(type=int, argstr="-n", default=3),
}, name="Cp")

class _SP:
    PIPE = -1
    def __init__(self):
        self.calls = []
    def run(self, cmd, stdout=None, stderr=None, **kw):
        self.calls.append(list(cmd))
        return types.SimpleNamespace(returncode=0, stdout=b"", stderr=b"")

class _Job:
    def __init__(self, task, cache_root):
        self.task, self.name = task, "j"
        self.inputs = {k: v for k, v in attrs.asdict(task, recurse=False).items() if not k.startswith("_")}
        self.cache_root = Path(cache_root)
        self.cache_dir = self.cache_root / "shell-abc"

def _okdir(s):
    return 1 <= len(s) <= 3 and "/" not in s and chr(0) not in s and s not in (".", "..")

def _c27(docker, root, d1, d2, with_b, n_many, ws_excluded, check_tail=True, in_cache_root=False, dup=False):
    sp = _SP()
    saved = B.sp
    B.sp = sp
    cache_root = E.scratch()
    base = E.scratch()
    IN = base + "/in/"
    def mk(path):
        os.makedirs(os.path.dirname(path), exist_ok=True)
        open(path, "w").close()
        return File(path)
    try:
        fa = mk((cache_root + "/a.txt") if in_cache_root else IN + "%s/a.txt" % d1)
        kw = {"a": fa}
        if with_b:
            kw["b"] = mk(IN + "%s/b.txt" % d2)
        if n_many:
            kw["many"] = [mk(IN + "%s/m%d.txt" % (d2 if i else d1, i)) for i in range(n_many)]
            if dup:
                kw["many"].append(kw["many"][0])        # the same file twice in one list input
        task = Cp(**kw)
        job = _Job(task, cache_root)
        env = (DK.Docker if docker else SG.Singularity)(image="img", tag="t", root=root)
        env.execute(job)
        native = list(task._command_args(values=job.inputs))
    finally:
        B.sp = saved
        E.cleanup(cache_root)
        E.cleanup(base)
    T.reach()
    argv = sp.calls[-1]
    head = ["docker", "run"] if docker else ["singularity", "exec"]
    bflag, wflag = ("-v", "-w") if docker else ("-B", "--pwd")
    desc = "%s root=%r dirs %r %r b=%s many=%d" % ("docker" if docker else "singularity", root, d1, d2, with_b, n_many)
    if argv[:2] != head:
        return "%s: argv starts with %r" % (desc, argv[:3])
    i, binds = 2, []
    while i < len(argv) and argv[i] == bflag:
        binds.append(argv[i + 1])
        i += 2
    if i + 1 >= len(argv) or argv[i] != wflag:
        return "%s: expected %s after the bind options, argv %r" % (desc, wflag, argv)
    workdir, image, tail = argv[i + 1], argv[i + 2], argv[i + 3:]
    r = root.rstrip("/")
    want_binds = {}
    def need(p, mode):
        parent = os.path.dirname(p)
        spec = "%s:%s:%s" % (parent, r + parent, mode)
        if want_binds.get(parent, "ro") != "rw":
            want_binds[parent] = mode
    need(str(fa), "ro")
    if with_b:
        need(IN + "%s/b.txt" % d2, "rw")
    for k in range(n_many):
        need(IN + "%s/m%d.txt" % (d2 if k else d1, k), "ro")
    want = {"%s:%s:%s" % (p, os.path.normpath(r + p), m) for p, m in want_binds.items()}
    want = {w for w in want if not w.startswith(cache_root + ":")}
    want.add("%s:%s:rw" % (cache_root, os.path.normpath(r + str(cache_root))))
    got = set()
    for b in binds:
        parts = b.rsplit(":", 2)
        if len(parts) != 3:
            return "%s: malformed bind option %r (argv %r)" % (desc, b, argv)
        got.add("%s:%s:%s" % (parts[0], os.path.normpath(parts[1]), parts[2]))
    if got != want:
        return "%s: bind mounts %s, expected %s" % (desc, sorted(got), sorted(want))
    if os.path.normpath(workdir) != os.path.normpath(r + str(job.cache_dir)):
        return "%s: working directory %r, expected %r" % (desc, workdir, r + str(job.cache_dir))
    if image != "img:t":
        return "%s: image %r" % (desc, image)
    want_tail = [(os.path.normpath(r + x) if (x.startswith(IN) or x.startswith(cache_root + "/")) else x) for x in native]
    if check_tail and [os.path.normpath(x) if x.startswith("/") else x for x in tail] != want_tail:
        return "%s: command %r, expected the native argv with remapped paths %r" % (desc, tail, want_tail)
    return None
'''


def build(tier, seed, exclude):
    g = Gen("C27", exclude)
    g.raw(HELPERS)
    quick = tier == "quick"
    to = 40 if quick else 200
    ws = "C27-whitespace-in-bind" in exclude
    pre = ["_okdir(d1) and _okdir(d2)", "0 <= ri < 4 and 0 <= n_many <= 2",
           "not any(c.isspace() or c in (chr(39), chr(34), chr(92)) for c in d1 + d2)"]     # C23-retokenised class, judged there
    for docker in (True, False):
        g.cond(f"h_{'docker' if docker else 'singularity'}", "ri: int, d1: str, d2: str, with_b: bool, n_many: int", pre, f"""
            root = ["/mnt/pydra", "/r", "/r/", "/deep/er/root"][T.real(ri)]
            err = _c27({docker}, root, T.real(d1), T.real(d2), T.real(with_b), T.real(n_many), {ws})
            return T.fail(err) if err else True
        """, timeout=to)
        g.cond(f"h_{'docker' if docker else 'singularity'}_placement", "ri: int, with_b: bool, n_many: int, in_root: bool, dup: bool", ["0 <= ri < 4 and 0 <= n_many <= 2"], f"""
            root = ["/mnt/pydra", "/r", "/r/", "/deep/er/root"][T.real(ri)]
            err = _c27({docker}, root, "x", "y", T.real(with_b), T.real(n_many), {ws}, in_cache_root=T.real(in_root), dup=T.real(dup))
            return T.fail(err) if err else True
        """, timeout=to)
    if True:
        for docker in (True, False):
            g.cond(f"h_{'docker' if docker else 'singularity'}_whitespace", "d1: str, with_b: bool", ["_okdir(d1) and any(c.isspace() for c in d1)"], f"""
                err = _c27({docker}, "/mnt/pydra", T.real(d1), "y", T.real(with_b), 0, False, check_tail=False)   # the command tail with whitespace is C23's recorded finding
                return T.fail(err) if err else True
            """, timeout=to)
    g.cond("twin_c27", "with_b: bool", ["True"], """
        err = _c27(True, "/mnt/pydra", "x", "y", T.real(with_b), 0, False)
        return False
    """, timeout=60, kind="twin")
    g.witness("w_whitespace_dir", """
        err = _c27(True, "/mnt/pydra", "a b", "y", False, 0, False, check_tail=False)
        return T.fail(err) if err else True
    """)
    return g.spec(bounds={"roots": ["/mnt/pydra", "/r", "/r/", "/deep/er/root"], "input directories": "1-3 chars, all of Unicode except '/' and NUL",
                          "file inputs": "1 mandatory, 1 optional (copy mode 'copy'), a list of 0-2"})
