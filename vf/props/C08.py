"""C08 Value hashing is deterministic, discriminating and context-free."""
import itertools
import random

from vf.core import Gen

META = dict(
    functions_encoded=["pydra.utils.hash.hash_function", "hash_object", "hash_single", "bytes_repr (generic object)", "bytes_repr_str",
                       "bytes_repr_bytes", "bytes_repr_int", "bytes_repr_float", "bytes_repr_complex", "bytes_repr_builtin_repr",
                       "bytes_repr_seq", "bytes_repr_set", "bytes_repr_dict", "bytes_repr_mapping_contents",
                       "bytes_repr_sequence_contents", "bytes_repr_pathlike", "bytes_repr_slice", "bytes_repr_type", "bytes_repr_numpy",
                       "bytes_repr_function", "Cache"],
    stubs=["IdealHash replaces blake2b inside pydra.utils.hash (equal streams <-> equal tokens) so that symbolic values survive hashing",
           "OrdSet/OrdDict: set/dict subclasses (same __name__, same registered serializer) whose iteration order is a symbolic permutation"],
    outside=["strings/bytes longer than 2-3, containers longer than 2-3, nesting deeper than 2", "NaN payloads and -0.0 vs 0.0 (listed, not judged)",
             "id() recycling of temporaries created inside one hashing call (allocator behaviour, not encodable)", "file-system objects (C09)"],
    assumptions=["BLAKE2b is collision-free on the streams of the bound (IdealHash)"],
)

HELPERS = '''
import attrs, struct
from pathlib import Path, PurePosixPath
import pydra.utils.hash as H
from vf.hl import hashing as HH
T.assert_repo(H)
HH.install()

def _mat(v):
    """materialise container spines (CrossHair container proxies are short-lived objects with proxy
    class names); element values stay symbolic, except set elements, which a real set has to hash"""
    if isinstance(v, list):
        return [_mat(e) for e in v]
    if isinstance(v, tuple):
        return tuple(_mat(e) for e in v)
    if isinstance(v, dict):
        return {T.real(k): _mat(e) for k, e in v.items()}
    if isinstance(v, (set, frozenset)):
        return T.real(v)
    return v

def _same(x, y):
    if isinstance(x, float) and isinstance(y, float):
        return struct.pack("<d", x) == struct.pack("<d", y)
    if isinstance(x, complex) and isinstance(y, complex):
        return struct.pack("<dd", x.real, x.imag) == struct.pack("<dd", y.real, y.imag)
    return type(x) is type(y) and x == y

def _deep_same(x, y):
    if type(x) is not type(y):
        return False
    if isinstance(x, (list, tuple)):
        return len(x) == len(y) and all(_deep_same(a, b) for a, b in zip(x, y))
    if isinstance(x, dict):
        return x.keys() == y.keys() and all(_deep_same(x[k], y[k]) for k in x)
    if isinstance(x, (set, frozenset)):
        return x == y and all(any(_deep_same(a, b) for b in y) for a in x)
    return _same(x, y)

def _inj(x, y):
    x, y = _mat(x), _mat(y)
    HH.reset()
    hx, hy = HH.hs(x), HH.hs(y)
    T.reach()
    if hx == hy and not _deep_same(x, y):
        return "different values hash equally: %r (%s) and %r (%s)" % (x, type(x).__name__, y, type(y).__name__)
    if hx != hy and _deep_same(x, y):
        return "equal values hash differently: %r and %r" % (x, y)
    return None

def _embed(x, y, c, shape):
    x, y = _mat(x), _mat(y)
    HH.reset()
    wrap = {"list": lambda v: [v, c], "tuple": lambda v: (c, v), "dict": lambda v: {"k": v, "c": c},
            "nest": lambda v: [[v], c], "set": lambda v: frozenset([v])}[shape]
    hx, hy = HH.hs(wrap(x)), HH.hs(wrap(y))
    T.reach()
    if (hx == hy) != _deep_same(x, y):
        return "%s embedding: %r vs %r -> hashes %s" % (shape, wrap(x), wrap(y), "equal" if hx == hy else "differ")
    return None

def _order_set(elems, p1, p2, frozen):
    elems = T.real(elems)
    HH.reset()
    cls = HH.OrdFrozenSet if frozen else HH.OrdSet
    a, b = cls(elems), cls(elems)
    a._order, b._order = HH.permuted(list(a), p1), HH.permuted(list(b), p2)
    ha, hb = HH.hs(a), HH.hs(b)
    T.reach()
    if ha != hb:
        return "the same set %r hashes differently for iteration orders %r and %r" % (set(elems), a._order, b._order)
    return None

def _order_dict(keys, vals, p1, p2):
    keys = T.real(keys)
    HH.reset()
    d = dict(zip(keys, vals))
    a, b = HH.OrdDict(d), HH.OrdDict(d)
    a._order, b._order = HH.permuted(list(d), p1), HH.permuted(list(d), p2)
    ha, hb = HH.hs(a), HH.hs(b)
    T.reach()
    if ha != hb:
        return "the same dict %r hashes differently for key orders %r and %r" % (d, a._order, b._order)
    return None

def _context(x, y):
    """hash of x must not depend on y having been hashed with the same Cache / alongside it"""
    x, y = _mat(x), _mat(y)
    HH.reset()
    alone = HH.hs(x)
    c = H.Cache()
    H.hash_function(y, cache=c)
    after = H.hash_function(x, cache=c)
    lst = [y, x]
    got = HH.stream(lst)
    want = b"list:(" + bytes.fromhex(HH.hs(y)) + bytes.fromhex(alone) + b")"
    T.reach()
    if after != alone:
        return "hash of %r changes after %r was hashed with the same cache" % (x, y)
    if got != want:
        return "inside [%r, %r] the element %r is not hashed as it is on its own" % (y, x, x)
    return None

@attrs.define
class Pt:
    a: int
    b: str

class Plain:
    def __init__(self, a, b):
        self.a, self.b = a, b

def add_one(v):
    return v + 1

def double(v):
    return v * 2

_ATTR_POOL = [1, "1", add_one, double, int, float, None, True, 1.0, (1,), [1]]
_TYPE_POOL = [int, float, str, bool, list, list[int], list[str], dict[str, int], tuple[int, str], tuple[int, ...], int | None, Pt, Plain]

import numpy as np
_NP_POOL = [np.arange(4), np.arange(4).reshape(2, 2), np.arange(4).reshape(4, 1), np.arange(4).astype("float64"),
            np.arange(4).astype("int32"), np.arange(8).astype("int32"), np.arange(4).view("float64"), np.zeros(4, dtype="int64"),
            np.zeros((2, 2), dtype="int64"), np.array([0, 1, 2, 3]), np.arange(4)[::-1].copy(),
            np.arange(4).reshape(2, 2).T, np.asfortranarray(np.arange(4).reshape(2, 2)), np.arange(8)[::2], np.arange(4)[::-1],
            np.arange(20000), np.concatenate([np.arange(19999), [7]]), np.arange(16384 + 3), np.concatenate([np.arange(16384 + 2), [1]])]
_NP_BO_POOL = [np.array([1, 256, 65536], dtype="<i4"), np.array([16777216, 65536, 256], dtype=">i4"), np.array([1, 256, 65536], dtype=">i4"),
               np.array(["ab"], dtype="<U2"), np.array(["ab"], dtype="<U2").view(">U2"), np.array(["ab"], dtype=">U2"),
               np.array([1, 2], dtype="<f8"), np.array([1, 2], dtype="<f8").view(">f8"), np.array([1, 2], dtype="<u2"), np.array([256, 512], dtype=">u2")]

def _np_same(a, b):
    """same logical array: shape, element type and elements in index order (memory layout is not part of the value)"""
    return a.shape == b.shape and a.dtype == b.dtype and a.tobytes(order="C") == b.tobytes(order="C")
'''

ANN = {
    "int": ("int", "True"), "str": ("str", "len({v}) <= 2"), "bytes": ("bytes", "len({v}) <= 2"), "bool": ("bool", "True"),
    "float": ("float", "True"), "list_int": ("List[int]", "len({v}) <= 2"), "tuple_int": ("Tuple[int, ...]", "len({v}) <= 2"),
    "dict_str_int": ("Dict[str, int]", "len({v}) <= 2 and all(len(k) <= 1 for k in {v})"), "set_int": ("Set[int]", "len({v}) <= 2"),
    "frozenset_int": ("ty.FrozenSet[int]", "len({v}) <= 2"), "list_str": ("List[str]", "len({v}) <= 2 and all(len(s) <= 1 for s in {v})"),
    "list_list_int": ("List[List[int]]", "len({v}) <= 2 and all(len(r) <= 2 for r in {v})"), "opt_int": ("Optional[int]", "True"),
    "tuple_int_str": ("Tuple[int, str]", "len({v}[1]) <= 1"), "complex": ("complex", "True"),
}


def build(tier, seed, exclude):
    g = Gen("C08", exclude)
    g.raw(HELPERS)
    quick = tier == "quick"
    rnd = random.Random(seed)
    to = 15 if quick else 90
    kinds = list(ANN)
    pairs = [(k, k) for k in kinds]
    cross = [(a, b) for a, b in itertools.combinations(kinds, 2)]
    pairs += rnd.sample(cross, 16) if quick else cross
    for a, b in pairs:
        (ta, pa), (tb, pb) = ANN[a], ANN[b]
        g.cond(f"h_inj_{a}__{b}", f"x: {ta}, y: {tb}", [pa.format(v="x"), pb.format(v="y")], """
            err = _inj(x, y)
            return T.fail(err) if err else True
        """, timeout=to)
    for shape in ["list", "tuple", "dict", "nest", "set"]:
        for a in (["int", "str", "tuple_int", "bool", "float"] if quick else ["int", "str", "bytes", "tuple_int", "bool", "float", "opt_int", "frozenset_int"]):
            ta, pa = ANN[a]
            g.cond(f"h_embed_{shape}_{a}", f"x: {ta}, y: {ta}, c: int", [pa.format(v="x"), pa.format(v="y")], f"""
                err = _embed(x, y, c, {shape!r})
                return T.fail(err) if err else True
            """, timeout=to)
    # cross-type embedding (1 vs 1.0 vs True inside containers)
    g.cond("h_embed_cross", "x: int, y: float, b: bool, sel: int", ["0 <= sel < 3"], """
        vals = [x, y, b]
        u, v = vals[sel], vals[(sel + 1) % 3]
        err = _embed(u, v, 0, "list") or _embed(u, v, 0, "tuple") or _embed(u, v, 0, "dict")
        return T.fail(err) if err else True
    """, timeout=to * 2)
    # order independence
    ex_fs = "C08-set-of-unorderable" in exclude
    g.cond("h_order_set_int", "e: Set[int], p1: int, p2: int, fz: bool", ["len(e) <= 3 and 0 <= p1 < 6 and 0 <= p2 < 6"], """
        err = _order_set(list(e), p1, p2, fz)
        return T.fail(err) if err else True
    """, timeout=to)
    g.cond("h_order_set_str", "e: Set[str], p1: int, p2: int", ["len(e) <= 3 and all(len(s) <= 1 for s in e) and 0 <= p1 < 6 and 0 <= p2 < 6"], """
        err = _order_set(list(e), p1, p2, False)
        return T.fail(err) if err else True
    """, timeout=to)
    if not ex_fs:
        g.cond("h_order_set_frozensets", "a: ty.FrozenSet[int], b: ty.FrozenSet[int], c: ty.FrozenSet[int], p1: int, p2: int",
               ["len(a) <= 2 and len(b) <= 2 and len(c) <= 2 and 0 <= p1 < 6 and 0 <= p2 < 6",
                "all(0 <= v < 3 for s in (a, b, c) for v in s)"], """
            err = _order_set(list({frozenset(a), frozenset(b), frozenset(c)}), p1, p2, True)
            return T.fail(err) if err else True
        """, timeout=to * 2)
        g.cond("h_order_set_mixed_none", "s: str, p1: int, p2: int", ["len(s) <= 1 and 0 <= p1 < 2 and 0 <= p2 < 2"], """
            try:
                err = _order_set([s, None], p1, p2, True)
            except TypeError as e:
                return T.fail(lambda: "a frozenset containing None and a str cannot be hashed: %r" % (e,))
            return T.fail(err) if err else True
        """, timeout=to)
    g.cond("h_order_dict", "k: Set[str], v0: int, v1: int, v2: int, p1: int, p2: int",
           ["len(k) <= 3 and all(len(s) <= 1 for s in k) and 0 <= p1 < 6 and 0 <= p2 < 6"], """
        err = _order_dict(sorted(k), [v0, v1, v2], p1, p2)
        return T.fail(err) if err else True
    """, timeout=to)
    # context freedom
    for a, b in ([("int", "int"), ("str", "str"), ("tuple_int", "tuple_int"), ("list_int", "tuple_int"), ("float", "int"), ("str", "bytes")] if quick else
                 [(a, b) for a in ["int", "str", "tuple_int", "list_int", "float", "bytes", "frozenset_int", "bool"] for b in ["int", "str", "tuple_int", "float", "bool"]]):
        (ta, pa), (tb, pb) = ANN[a], ANN[b]
        g.cond(f"h_context_{a}__{b}", f"x: {ta}, y: {tb}", [pa.format(v="x"), pb.format(v="y")], """
            err = _context(x, y)
            return T.fail(err) if err else True
        """, timeout=to)
    g.cond("h_context_numeric_tuples", "a: int, b: int, fa: float, fb: float, flag: bool", ["True"], """
        err = _context((a, b), (fa, fb)) or _context((fa, fb), (a, b)) or _context((a, b), (flag, b)) or _context(frozenset([a]), frozenset([fa]))
        return T.fail(err) if err else True
    """, timeout=to * 2)
    # objects: attrs and plain, attribute values drawn from a pool (functions, types, numbers)
    g.cond("h_obj_attrs", "a1: int, b1: str, a2: int, b2: str", ["len(b1) <= 1 and len(b2) <= 1"], """
        HH.reset()
        h1, h2 = HH.hs(Pt(a1, b1)), HH.hs(Pt(a2, b2))
        T.reach()
        if (h1 == h2) != (a1 == a2 and b1 == b2):
            return T.fail(lambda: "Pt(%r,%r) vs Pt(%r,%r): hashes %s" % (a1, b1, a2, b2, "equal" if h1 == h2 else "differ"))
        return True
    """, timeout=to)
    g.cond("h_obj_plain_pool", "i: int, k: int, second: bool", ["0 <= i < 11 and 0 <= k < 11"], """
        HH.reset()
        i, k = T.real(i), T.real(k)
        if second:
            o1, o2 = Plain(0, _ATTR_POOL[i]), Plain(0, _ATTR_POOL[k])
        else:
            o1, o2 = Plain(_ATTR_POOL[i], "s"), Plain(_ATTR_POOL[k], "s")
        h1, h2 = HH.hs(o1), HH.hs(o2)
        T.reach()
        if (h1 == h2) != (i == k):
            return T.fail(lambda: "Plain objects with attribute %r vs %r: hashes %s" % (_ATTR_POOL[i], _ATTR_POOL[k], "equal" if h1 == h2 else "differ"))
        return True
    """, timeout=to * 3)
    g.cond("h_type_pool", "i: int, j: int", ["0 <= i < 13 and 0 <= j < 13"], """
        HH.reset()
        i, j = T.real(i), T.real(j)
        h1, h2 = HH.hs(_TYPE_POOL[i]), HH.hs(_TYPE_POOL[j])
        T.reach()
        if (h1 == h2) != (i == j):
            return T.fail(lambda: "types %r and %r: hashes %s" % (_TYPE_POOL[i], _TYPE_POOL[j], "equal" if h1 == h2 else "differ"))
        return True
    """, timeout=to * 2)
    np_pre = ["0 <= i < 19 and 0 <= j < 19"]
    if "C08-array-shape-dtype" in exclude:
        np_pre.append("_NP_POOL[i].tobytes() != _NP_POOL[j].tobytes() or _NP_POOL[i].size != _NP_POOL[j].size or _np_same(_NP_POOL[i], _NP_POOL[j])")
    g.cond("h_numpy_pool", "i: int, j: int", np_pre, """
        HH.reset()
        i, j = T.real(i), T.real(j)
        a, b = _NP_POOL[i], _NP_POOL[j]
        h1, h2 = HH.hs(a), HH.hs(b)
        T.reach()
        if (h1 == h2) != _np_same(a, b):
            return T.fail(lambda: "arrays shape %s dtype %s and shape %s dtype %s: hashes %s" % (a.shape, a.dtype, b.shape, b.dtype, "equal" if h1 == h2 else "differ"))
        return True
    """, timeout=to * 2)
    g.cond("h_numpy_byteorder", "i: int, j: int", ["0 <= i < 10 and 0 <= j < 10"], """
        HH.reset()
        i, j = T.real(i), T.real(j)
        a, b = _NP_BO_POOL[i], _NP_BO_POOL[j]
        h1, h2 = HH.hs(a), HH.hs(b)
        hn = HH.hs({"k": [a]}) == HH.hs({"k": [b]})
        T.reach()
        if (h1 == h2) != _np_same(a, b) or hn != _np_same(a, b):
            return T.fail(lambda: "arrays %s dtype %s and %s dtype %s (same raw bytes: %s): hashes %s alone, %s nested" % (a.tolist(), a.dtype.str, b.tolist(), b.dtype.str, a.tobytes() == b.tobytes(), "equal" if h1 == h2 else "differ", "equal" if hn else "differ"))
        return True
    """, timeout=to * 2)
    g.cond("twin_c08", "x: int, y: int", ["True"], """
        err = _inj(x, y)
        return False
    """, timeout=30, kind="twin")
    g.witness("w_array_shape", """
        HH.reset()
        a, b = _NP_POOL[0], _NP_POOL[1]
        return T.fail("arange(4) and arange(4).reshape(2,2) hash equally") if HH.hs(a) == HH.hs(b) else True
    """)
    g.witness("w_set_of_frozensets", """
        err = _order_set([frozenset([0]), frozenset([1]), frozenset([0, 1])], 0, 3, True)
        return T.fail(err) if err else True
    """)
    return g.spec(bounds={"strings/bytes": "<= 2 (<= 1 inside containers)", "containers": "<= 2-3 elements", "nesting": "<= 2",
                          "type pairs": len(pairs), "object attribute pool": 11, "type pool": 13, "array pool": "19 (shapes, dtypes, views, Fortran order, negative strides, arrays of > 16384 elements differing in the last element) + 10 byte-order variants (little/big-endian int, unicode, float, uint16 with equal raw bytes)"})
