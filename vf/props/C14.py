"""C14 A failing job never stops independent jobs (asynchronous workers)."""
from vf.core import Gen

META = dict(
    functions_encoded=["pydra.engine.submitter.Submitter.expand_workflow_async", "Submitter.get_runnable_tasks", "Submitter.fetch_finished",
                       "NodeExecution.update_status", "NodeExecution.get_runnable_tasks", "NodeExecution.done / started / start",
                       "pydra.engine.job.Job.done / errored / run / run_async", "pydra.compose.workflow.WorkflowOutputs._from_job"],
    stubs=["vf/hl/sched.py: FakeAsyncio (asyncio as seen from pydra.engine.submitter), FakeLoop, ScriptedWorker (public Worker plug-in API)",
           "vf/engine.py (scratch cache root on the real file system, logical clock, untraced cloudpickle/hash of concrete values)"],
    outside=["dependency is judged at node granularity (a job of node d depends on every job of node s)", "real process pools and OS scheduling", "more than 6 nodes / 8 schedule decisions", "workflows nested more than one level"],
    assumptions=["between two wake-ups of the submitter loop any subset of the submitted jobs may become visibly running and any non-empty "
                 "subset may complete, in either order (cooperative model of a concurrent worker)"],
)

HELPERS = '''
from vf.hl import asyncprops as AP
import pydra.engine.submitter as SB
T.assert_repo(SB)
'''
NS = 6


def build(tier, seed, exclude):
    g = Gen("C14", exclude)
    g.raw(HELPERS)
    quick = tier == "quick"
    to = 110 if quick else 600
    params = "sd: int"
    pre = [f"0 <= sd < {4 ** NS}"]
    ch = f"AP.S.decode(T.real(sd), {NS}, 4)"
    for shape, nbits in (("indep", 2), ("forkjoin", 2), ("splitfail", 1), ("twobranch", 1), ("nestedfail", 1)):
        for bits in range(1, 2 ** nbits):
            g.cond(f"h_{shape}_fail{bits}", params, pre, f"""
                err = AP.c14({shape!r}, {bits}, {ch})
                return T.fail(err) if err else True
            """, timeout=to)
    # polling-worker schedules (results reach the disk before the futures are reported), all failable nodes failing
    for shape in ("indep", "forkjoin"):
        g.cond(f"h_{shape}_fail3_lagging", params, pre, f"""
            err = AP.c14({shape!r}, 3, {ch}, lagging=True)
            return T.fail(err) if err else True
        """, timeout=to)
    # a failing element of a split node under a concurrency limit smaller than the node's width
    for k in (1, 2):
        g.cond(f"h_splitfail_fail1_k{k}", params, pre, f"""
            err = AP.c14("splitfail", 1, {ch}, max_concurrent={k})
            return T.fail(err) if err else True
        """, timeout=to)
    g.cond("h_twobranch_fail1_lagging", params, pre, f"""
        err = AP.c14("twobranch", 1, {ch}, lagging=True)
        return T.fail(err) if err else True
    """, timeout=to)
    g.cond("twin_c14", "c0: int", ["0 <= c0 < 2"], """
        err = AP.c14("indep", 1, [T.real(c0)])
        return False
    """, timeout=120, kind="twin")
    return g.spec(bounds={"shapes": ["indep (f | k->m)", "forkjoin (s->(p,q)->j | t->u)", "splitfail (split s with one failing element -> d | i1->i2->i3; also with max_concurrent 1, 2)", "twobranch (a->b->x | c->d->y)", "nestedfail (r1->r2->r3 | nested workflow a->b whose first job fails)"], "failing sets": "every non-empty subset of the failable nodes",
                          "schedule": f"{NS} four-way decisions, then a fixed default"})
