"""C13 Failures are reported and never cached as success."""
from vf.core import Gen

META = dict(
    functions_encoded=["pydra.compose.python.PythonTask._run (return binding)", "PythonOutputs._from_job", "Outputs._from_job",
                       "pydra.engine.job.Job.run (except/finally)", "pydra.engine.result.record_error", "save", "load_result",
                       "Job.result / Job.done", "pydra.compose.base.task.Task.__call__ (error reporting)", "Submitter.__call__"],
    stubs=["vf/engine.py: scratch cache root on the real file system, logical clock, untraced cloudpickle / hash_function on concrete values"],
    outside=["real shell processes (the process is stubbed: subprocess.run as seen from pydra.environments.base returns the symbolic return code)", "a body that returns None while outputs are declared (listed, not judged)",
             "process-pool workers"],
    assumptions=["failure modes are the enumerated return shapes; x is realised per path"],
)

HELPERS = '''
from vf.hl import eng as EN
import pydra.compose.python as PY
import pydra.engine.job as JB
T.assert_repo(PY, JB)
'''


def build(tier, seed, exclude):
    g = Gen("C13", exclude)
    g.raw(HELPERS)
    quick = tier == "quick"
    to = 100 if quick else 400
    modes = [0, 2, 3, 4, 5, 6, 7, 8, 9, 10, 11, 12, 13, 14]    # 12 / 13: the body ends in SystemExit / KeyboardInterrupt; 14: removes its working directory, then raises
    # one condition per mode group so that the 16 cores share the work
    groups = [[0], [5, 10, 11], [2, 3, 4, 6], [7, 8, 9], [12, 13], [14]]
    for k, grp in enumerate(groups):
        g.cond(f"h_modes_{k}", "mi: int, x: int, again: bool", [f"0 <= mi < {len(grp)} and 0 <= x <= 2"], f"""
            mode = {grp!r}[T.real(mi)]
            err = EN.c13(mode, T.real(x), T.real(again))
            return T.fail(err) if err else True
        """, timeout=to)
    g.cond("h_optional_output", "mode: int, x: int, again: bool", ["0 <= mode <= 7 and 0 <= x <= 1"], """
        err = EN.c13_opt(T.real(mode), T.real(x), T.real(again))
        return T.fail(err) if err else True
    """, timeout=to)
    g.cond("h_shell_return_code", "ri: int, again: bool", ["0 <= ri < 8"], """
        rc = [0, 1, 2, 127, 255, -1, -9, -11][T.real(ri)]
        err = EN.c13_shell(rc, T.real(again))
        return T.fail(err) if err else True
    """, timeout=to)
    g.cond("h_workflow_inner_failure", "x: int, again: bool", ["0 <= x <= 1"], """
        import vf.engine as E, vf.rec as R
        from vf.hl import engdefs as D
        E.reset(); R.clear()
        d = E.scratch()
        try:
            o1, e1 = EN.call(D.Chain2(x=T.real(x), fail=True), cache_root=d)
            n1 = len(EN.bodies("Inc"))
            o2 = e2 = None
            if T.real(again):
                o2, e2 = EN.call(D.Chain2(x=T.real(x), fail=True), cache_root=d)
            n2 = len(EN.bodies("Inc"))
        finally:
            E.cleanup(d)
        T.reach()
        if e1 is None or (again and e2 is None):
            return T.fail(lambda: "workflow with a failing inner task reported success: %r / %r" % (o1, o2))
        if again and n2 != n1 + 1:
            return T.fail(lambda: "second submission: bodies %d -> %d (the successful node is reused, the failed one executes again)" % (n1, n2))
        return True
    """, timeout=to)
    # a split node one element of which failed earlier, resubmitted under a concurrency limit: the failed element is executed again
    pre_s = ["1 <= n <= 3 and 0 <= k <= 3"]
    if "C13-stale-error-with-max-concurrent" in exclude:
        pre_s.append("k == 0 or k >= n")          # recorded finding: a finite limit smaller than the node's job count
    g.cond("h_stale_error_split_limited", "n: int, k: int", pre_s, """
        kk = T.real(k)
        err = EN.split_resubmission(T.real(n), None if kk == 0 else kk, "stale_error")
        return T.fail(err) if err else True
    """, timeout=to)
    g.witness("w_stale_error_limited", """
        err = EN.split_resubmission(2, 1, "stale_error")
        return T.fail(err) if err else True
    """)
    g.cond("twin_c13", "x: int", ["0 <= x <= 1"], """
        err = EN.c13(5, T.real(x), False)
        return False
    """, timeout=120, kind="twin")
    return g.spec(bounds={"failure/return modes": modes, "x": "0..2", "second submission": "symbolic flag"})
