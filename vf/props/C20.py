"""C20 Accepted field values conform to the declared type."""
import random

from vf.core import Gen

META = dict(
    functions_encoded=["pydra.utils.typing.TypeParser.__call__", "TypeParser.coerce", "expand_and_coerce", "coerce_basic", "coerce_union",
                       "coerce_mapping", "coerce_tuple", "coerce_sequence", "check_coercible", "check_type_coercible", "is_instance",
                       "is_subclass", "attrs on_setattr converter of a generated task class (h_assign_*)"],
    stubs=[],
    outside=["type expressions deeper than 2 levels, unions of more than 3 members", "fileformats types (need real files)",
             "strings longer than 2, collections longer than 2", "numpy values", "bytes -> list[int] ([97, 98]) is listed, not judged"],
    assumptions=["'conforms' is structural: container kind and every element type match; bool counts as int; int is accepted where float is "
                 "declared only if it is stored as a number"],
)

TYPES = [
    ("int", "int"), ("float", "float"), ("bool", "bool"), ("str", "str"), ("bytes", "bytes"), ("Path", "Path"),
    ("int_none", "ty.Optional[int]"), ("str_int", "ty.Union[str, int]"), ("list_int", "list[int]"), ("list_str", "list[str]"),
    ("tuple_int_str", "tuple[int, str]"), ("tuple_int_var", "tuple[int, ...]"), ("dict_str_int", "dict[str, int]"),
    ("set_str", "set[str]"), ("frozenset_str", "frozenset[str]"), ("list_list_int", "list[list[int]]"),
    ("list_str_none", "ty.Optional[list[str]]"), ("multi_str", "MultiInputObj[str]"), ("multi_int", "MultiInputObj[int]"),
    ("list_path", "list[Path]"), ("seq_str", "ty.Sequence[str]"), ("set_int", "set[int]"), ("dict_str_list", "dict[str, list[int]]"),
    ("str_list_str", "ty.Union[str, list[str]]"), ("tuple_str_var", "tuple[str, ...]"),
]
KINDS = [
    ("int", "int", "True"), ("str", "str", "len(v) <= 2"), ("bytes", "bytes", "len(v) <= 2"), ("bool", "bool", "True"),
    ("float", "float", "True"), ("list_int", "List[int]", "len(v) <= 2"), ("list_str", "List[str]", "len(v) <= 2 and all(len(s) <= 2 for s in v)"),
    ("tuple_int_str", "Tuple[int, str]", "len(v[1]) <= 2"), ("dict_str_int", "Dict[str, int]", "len(v) <= 2 and all(len(s) <= 2 for s in v)"),
    ("set_str", "Set[str]", "len(v) <= 2 and all(len(s) <= 2 for s in v)"), ("tuple_str_str", "Tuple[str, str]", "len(v[0]) <= 2 and len(v[1]) <= 2"),
    ("frozenset_str", "ty.FrozenSet[str]", "len(v) <= 2 and all(len(s) <= 2 for s in v)"), ("none_or_int", "Optional[int]", "True"),
]

HELPERS = '''
import os
from pathlib import Path
from pydra.utils import typing as PT
from pydra.utils.typing import TypeParser, MultiInputObj
from vf.oracles.typing_conf import conforms, str_mangled, same_value
T.assert_repo(PT)

def _c20(tp, v):
    try:
        out = TypeParser(tp)(v)
    except TypeError:
        T.reach()
        return None            # rejected at assignment: fine
    T.reach()
    if not conforms(out, tp):
        return "TypeParser(%s)(%r) accepted and stored %r, which does not conform" % (tp, v, out)
    if str_mangled(v, out):
        return "TypeParser(%s)(%r) -> %r: string split / collection joined" % (tp, v, out)
    try:
        again = TypeParser(tp)(out)
    except TypeError as e:
        return "TypeParser(%s): accepted value %r -> %r is rejected when coerced again (%s)" % (tp, v, out, e)
    if not same_value(again, out):
        return "TypeParser(%s): coercing %r again gives %r" % (tp, out, again)
    return None
'''


def build(tier, seed, exclude):
    g = Gen("C20", exclude)
    g.raw(HELPERS)
    quick = tier == "quick"
    rnd = random.Random(seed)
    combos = [(t, k) for t in TYPES for k in KINDS]
    if quick:
        must = [c for c in combos if (c[0][0], c[1][0]) in {("set_str", "str"), ("str", "set_str"), ("frozenset_str", "str"), ("list_str", "str"),
                                                            ("str", "list_str"), ("list_int", "bytes"), ("multi_str", "str"), ("tuple_int_str", "list_int"),
                                                            ("float", "int"), ("int", "bool"), ("Path", "str"), ("str_list_str", "str"), ("seq_str", "str"),
                                                            ("dict_str_int", "dict_str_int"), ("str", "frozenset_str"), ("list_str", "set_str")}]
        rest = [c for c in combos if c not in must]
        combos = must + rnd.sample(rest, 70)
    to = 10 if quick else 40
    judged_out = {("list_int", "bytes"), ("multi_int", "bytes"), ("tuple_int_var", "bytes"), ("set_int", "bytes")}
    for (tn, tx), (kn, ka, kpre) in combos:
        if (tn, kn) in judged_out:
            continue
        g.cond(f"h_{tn}__{kn}", f"v: {ka}", [kpre], f"""
            err = _c20({tx}, v)
            return T.fail(err) if err else True
        """, timeout=to)
    g.cond("twin_c20", "v: int", ["True"], """
        err = _c20(float, v)
        return False
    """, timeout=20, kind="twin")
    # rejection happens at assignment on a task class (attrs on_setattr converter)
    g.raw('''
    from pydra.compose import python as _py
    @_py.define
    def _Typed(n: int, names: list[str], tag: str, tags: set[str]) -> int:
        return n
    ''')
    for fld, ka, kpre in [("n", "str", "len(v) <= 2"), ("names", "str", "len(v) <= 2"), ("tag", "List[str]", "len(v) <= 2"),
                          ("tags", "str", "len(v) <= 2"), ("tag", "Set[str]", "len(v) <= 2"), ("names", "int", "True")]:
        g.cond(f"h_assign_{fld}_{ka.replace('[', '').replace(']', '')}", f"v: {ka}", [kpre], f"""
            t = _Typed(n=0, names=[], tag="", tags=set())
            try:
                t.{fld} = v
            except TypeError:
                T.reach()
                return True
            T.reach()
            tp = {{"n": int, "names": list[str], "tag": str, "tags": set[str]}}["{fld}"]
            out = t.{fld}
            if not conforms(out, tp) or str_mangled(v, out):
                return T.fail(lambda: "assignment _Typed.{fld} = %r accepted and stored %r" % (v, out))
            return True
        """, timeout=to)
    return g.spec(bounds={"types": len(TYPES), "value kinds": len(KINDS), "strings": "<= 2 chars", "collections": "<= 2 elements",
                          "pairs": len(combos)})
