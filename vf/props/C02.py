"""C02 Combine groups job outputs into an exact, ordered partition."""
import itertools
import random

from vf.core import Gen
from vf.oracles import split as S

META = dict(
    functions_encoded=["pydra.engine.state.State.prepare_states_combined_ind", "State.prepare_states_ind", "State.splits",
                       "splits_groups", "combine_final_groups", "converter_groups_to_input", "remove_inp_from_splitter_rpn",
                       "rpn2splitter", "State.combiner_validation", "pydra.compose.base.task.Task.combine",
                       "pydra.engine.lazy.LazyOutField._get_value (L2)", "State.depth / nest_output_type (L2, via returned nesting)"],
    stubs=["L1 conditions: none", "L2 conditions: vf/engine.py (scratch cache root on the real FS, logical clock, untraced pickle/hash of concrete tokens)"],
    outside=["more than 4 fields; lists longer than 3 (L1) / 2 (L2)", "combiners naming upstream-node fields (C03)"],
    assumptions=["inner products identify their operands' axes positionally (axis i of every operand is one axis)"],
)

HELPERS = '''
import copy
from pydra.engine import state as ST
from vf.oracles import split as S
T.assert_repo(ST)

def _l1c(tree, comb, lens):
    try:
        jobs = S.expand(tree, lens)
        S.shape(tree, lens)
    except (S.Reject, S.MayReject):
        return None                      # acceptance of odd shapes is C01's subject
    want, remaining = S.combine(tree, lens, comb)
    try:
        st = ST.State("N", splitter=copy.deepcopy(S.prefix(tree, "N")), combiner=["N." + c for c in comb])
        st.prepare_states(inputs={"N." + f: list(range(n)) for f, n in lens.items()})
        mapping = st.final_combined_ind_mapping
        sind = st.states_ind
    except Exception as e:
        T.reach()
        return "well-formed split/combine rejected: %r" % (e,)
    T.reach()
    if [tuple(sorted((k[2:], v) for k, v in d.items())) for d in sind] != [tuple(sorted(j.items())) for j in jobs]:
        return "job enumeration differs from reference"
    got = [list(mapping[k]) for k in sorted(mapping)]
    if not remaining:
        flat = [i for grp in got for i in grp]
        if flat != list(range(len(jobs))):
            return "full combine gives %r for %d jobs" % (got, len(jobs))
        return None
    got_ne = got
    if got_ne != want:
        return "groups %r, reference partition %r" % (got, want)
    return None
'''


def combos(tree):
    fs = sorted(set(S.fields(tree)))
    out = []
    for k in range(1, len(fs) + 1):
        out += [list(c) for c in itertools.combinations(fs, k)]
    return out


def shapes(tier, seed):
    rnd = random.Random(seed)
    base = ["a"] + S.trees(["a", "b"]) + S.trees(["a", "b", "c"])
    four = S.trees(["a", "b", "c", "d"])
    three_p = []
    for perm in list(itertools.permutations(["a", "b", "c"]))[1:]:
        three_p += S.trees(list(perm))
    if tier == "quick":
        return base + rnd.sample(four, 4) + rnd.sample(three_p, 2)
    return base + rnd.sample(four, min(30, len(four))) + three_p


def build(tier, seed, exclude):
    g = Gen("C02", exclude)
    g.raw(HELPERS)
    quick = tier == "quick"
    to = 12 if quick else 60
    rnd = random.Random(seed + 1)
    for t in shapes(tier, seed):
        fs = sorted(set(S.fields(t)))
        cs = combos(t)
        if quick and len(cs) > 3:
            cs = rnd.sample(cs, 3)
        elif not quick and len(cs) > 4:
            cs = rnd.sample(cs, 4)
        maxlen = 3 if len(fs) <= 3 else 2
        for comb in cs:
            params = ", ".join(f"n{f}: int" for f in fs)
            pre = [" and ".join(f"1 <= n{f} <= {maxlen}" for f in fs)]
            g.cond("h_l1_" + S.tree_name(t) + "_" + "".join(comb), params, pre, f"""
                err = _l1c({t!r}, {comb!r}, {{{", ".join(f'"{f}": n{f}' for f in fs)}}})
                return T.fail(err) if err else True
            """, timeout=to)
    g.cond("twin_l1", "na: int, nb: int", ["1 <= na <= 2 and 1 <= nb <= 2"], """
        err = _l1c(["a", "b"], ["a"], {"a": na, "b": nb})
        return err is not None
    """, timeout=30, kind="twin")
    # L2 through the engine
    g.raw("from vf.hl import splitrun as SR")
    l2 = [(["a", "b"], ["a"]), (["a", "b"], ["b"]), ([("a", "b"), "c"], ["a"]), ([("a", "b"), "c"], ["c"]), (["a", "b"], ["a", "b"])]
    if not quick:
        l2 += [(t, c) for t in S.trees(["a", "b", "c"]) for c in combos(t)]
    for t, comb in l2:
        fs = sorted(set(S.fields(t)))
        params = ", ".join(f"n{f}: int" for f in fs) + ", dup: bool"
        pre = [" and ".join(f"1 <= n{f} <= 2" for f in fs)]
        g.cond("h_l2_" + S.tree_name(t) + "_" + "".join(comb), params, pre, f"""
            err = SR.l2_combine({t!r}, {comb!r}, {{{", ".join(f'"{f}": n{f}' for f in fs)}}}, dup, 7)
            return T.fail(err) if err else True
        """, timeout=(50 if quick else 300))
    return g.spec(bounds={"fields": "<= 4", "list length": "1-3 (L1; 1-2 with four fields), 1-2 (L2) - the property quantifies over lengths 1-3",
                          "combiners": "every non-empty subset of the split fields (seeded sample of 4 per shape in quick)"})
