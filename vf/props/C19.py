"""C19 Task execution cannot silently alter its recorded inputs."""
from vf.core import Gen

META = dict(
    functions_encoded=["pydra.engine.job.Job._check_for_hash_changes", "pydra.compose.base.task.Task._hash_changes / _compute_hashes",
                       "Job.run", "Job.checksum (cached)", "pydra.engine.result.save", "pydra.compose.python.PythonTask._run"],
    stubs=["vf/engine.py (untraced hash_function is the real one on concrete values)"],
    outside=["file inputs with copy mode 'copy' (real file copying is fileformats / kernel behaviour)", "process-pool workers (the parent's "
             "objects cannot be mutated by a child process)", "mutations invisible to the hash (C06/C08 subject)"],
    assumptions=["mutation kinds: list append / item assignment / pop / sort, dict key assignment, set add, attribute assignment, none"],
)

HELPERS = '''
from vf.hl import eng as EN
import pydra.engine.job as JB
T.assert_repo(JB)
'''


def build(tier, seed, exclude):
    g = Gen("C19", exclude)
    g.raw(HELPERS)
    quick = tier == "quick"
    to = 100 if quick else 400
    for kind in range(11):
        g.cond(f"h_mutation_{kind}", "val: int, base: int", ["0 <= val <= 3 and 0 <= base <= 3"], f"""
            err = EN.c19({kind}, T.real(val), T.real(base))
            return T.fail(err) if err else True
        """, timeout=to)
    g.cond("twin_c19", "val: int", ["0 <= val <= 1"], """
        err = EN.c19(1, T.real(val), 1)
        return False
    """, timeout=120, kind="twin")
    return g.spec(bounds={"mutation kinds": "11 (incl. making one input equal to another, swapping two inputs, last element of a 20000-element array)", "operand / base values": "0..3 (so that no-op mutations occur)"})
