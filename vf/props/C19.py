"""C19 Task execution cannot silently alter its recorded inputs."""
from vf.core import Gen

META = dict(
    technique='solver-based bounded symbolic execution of the real code (CrossHair + z3), counterexample replay; the DEBUG-logging condition runs its solver-chosen inputs outside the tracer (log records carry time.time())',
    functions_encoded=["pydra.engine.job.Job._check_for_hash_changes", "pydra.compose.base.task.Task._hash_changes / _compute_hashes",
                       "Job.run", "Job.checksum (cached)", "pydra.engine.result.save", "pydra.compose.python.PythonTask._run"],
    stubs=["vf/engine.py (untraced hash_function is the real one on concrete values)"],
    outside=["file inputs with copy mode 'copy' (real file copying is fileformats / kernel behaviour)", "process-pool workers (the parent's "
             "objects cannot be mutated by a child process)", "mutations invisible to the hash (C06/C08 subject)"],
    assumptions=["mutation kinds: list append / item assignment / pop / sort, dict key assignment, set add, attribute assignment, none"],
)

HELPERS = '''
from vf.hl import eng as EN
import pydra.engine.job as JB
T.assert_repo(JB)
'''


def build(tier, seed, exclude):
    g = Gen("C19", exclude)
    g.raw(HELPERS)
    quick = tier == "quick"
    to = 100 if quick else 400
    for kind in range(14):
        g.cond(f"h_mutation_{kind}", "val: int, base: int", ["0 <= val <= 3 and 0 <= base <= 3"], f"""
            err = EN.c19({kind}, T.real(val), T.real(base))
            return T.fail(err) if err else True
        """, timeout=to)
    # the same with the 'pydra' logger at DEBUG level (logging must not change what is detected).  Kinds 4 and 12 (objects hashed
    # through their __dict__) are left to the traced conditions above: run untraced inside a CrossHair worker process they gave a
    # repeatable counterexample that no plain interpreter reproduces, even with the same history of calls (DESIGN 10.5)
    g.cond("h_mutation_debug_logging", "kind: int, val: int, base: int", ["0 <= kind <= 13 and kind not in (4, 10, 12) and 0 <= val <= 3 and 0 <= base <= 3"], """
        val, base = T.real(val), T.real(base)
        err = EN.c19(T.real(kind), val, base, debug_log=True)
        return T.fail(err) if err else True
    """, timeout=to)
    g.cond("twin_c19", "val: int", ["0 <= val <= 1"], """
        err = EN.c19(1, T.real(val), 1)
        return False
    """, timeout=120, kind="twin")
    return g.spec(bounds={"logging": "default level / pydra logger at DEBUG", "mutation kinds": "14 (incl. a list inside a tuple, an object inside a frozenset, a dict inside a tuple, making one input equal to another, swapping two inputs, last element of a 20000-element array)", "operand / base values": "0..3 (so that no-op mutations occur)"})
