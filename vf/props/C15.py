"""C15 Jobs start only after the jobs they consume have succeeded."""
from vf.core import Gen
from vf.props.C14 import HELPERS

META = dict(
    functions_encoded=["pydra.engine.submitter.Submitter.expand_workflow / expand_workflow_async", "Submitter.get_runnable_tasks",
                       "NodeExecution.get_runnable_tasks / update_status / start", "pydra.engine.graph.DiGraph.sorted_nodes / predecessors",
                       "pydra.engine.lazy.LazyOutField._get_value"],
    stubs=["vf/hl/sched.py (FakeAsyncio, FakeLoop, ScriptedWorker)", "vf/engine.py"],
    outside=["real process pools", "more than 6 nodes / 8 schedule decisions"],
    assumptions=["as C14"],
)
NS = 6


def build(tier, seed, exclude):
    g = Gen("C15", exclude)
    g.raw(HELPERS)
    quick = tier == "quick"
    to = 110 if quick else 600
    params = "sd: int" + ", k: int"
    pre = [f"0 <= sd < {4 ** NS}", "0 <= k <= 3"]
    ch = f"AP.S.decode(T.real(sd), {NS}, 4)"
    for shape in ("indep", "forkjoin", "dupref"):
        g.cond(f"h_async_{shape}", params, pre, f"""
            kk = T.real(k)
            err = AP.c15({shape!r}, {ch}, None if kk == 0 else kk)
            return T.fail(err) if err else True
        """, timeout=to)
        g.cond(f"h_async_rerun_{shape}", params, pre, f"""
            kk = T.real(k)
            err = AP.c15({shape!r}, {ch}, None if kk == 0 else kk, warm_rerun=True, all_complete={'C15-stale-result-on-rerun' in exclude})
            return T.fail(err) if err else True
        """, timeout=to)
    # the synchronous loop (debug worker)
    g.cond("h_sync", "which: int, k: int", ["0 <= which <= 2 and 0 <= k <= 3"], """
        import vf.engine as E, vf.rec as R
        from vf.hl import engdefs as D
        shape = ["indep", "forkjoin", "dupref"][T.real(which)]
        from vf.hl import sched as S
        S.install(); S.reset()
        E.reset(); R.clear()
        d = E.scratch()
        kw = {} if T.real(k) == 0 else {"max_concurrent": T.real(k)}
        try:
            out = AP.SHAPES[shape]["make"](1, set())(cache_root=d, worker="debug", **kw)
        except S.BudgetExceeded as e:
            return T.fail(lambda: "sync loop with %s makes no progress: %s" % (kw, e))
        finally:
            E.cleanup(d)
        T.reach()
        nodes = AP.SHAPES[shape]["nodes"]
        order = [AP.tag_of(b) for b in R.LOG]
        pos = {t: i for i, t in enumerate(order)}
        for n, (t, deps) in nodes.items():
            if order.count(t) != 1 or any(pos[nodes[dn][0]] > pos[t] for dn in deps):
                return T.fail(lambda: "sync loop: execution order %r violates dependencies of %s" % (order, n))
        return True
    """, timeout=to)
    g.cond("twin_c15", "c0: int", ["0 <= c0 < 2"], """
        err = AP.c15("indep", [T.real(c0)])
        return False
    """, timeout=120, kind="twin")
    g.witness("w_stale_rerun", """
        err = AP.c15("indep", [0, 0, 0, 0, 2, 1], None, warm_rerun=True) or AP.c15("indep", [0, 0, 0, 0, 1, 0], None, warm_rerun=True)
        return T.fail(err) if err else True
    """)
    return g.spec(bounds={"shapes": ["indep", "forkjoin", "dupref (a node reading one upstream twice and another one on a longer branch)"], "schedule": f"{NS} four-way decisions", "max_concurrent": "unlimited, 1, 2, 3"})
