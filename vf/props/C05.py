"""C05 Equivalent splitter spellings agree; ill-formed split/combine is rejected early."""
import itertools
import random

from vf.core import Gen
from vf.oracles import split as S

META = dict(
    functions_encoded=["pydra.engine.state._ordering (one-element unwrapping)", "splitter2rpn", "_iterate_list", "add_name_splitter",
                       "State.prepare_states", "State.splitter_validation", "State.combiner_validation",
                       "pydra.compose.base.task.Task.split", "Task.combine", "unwrap_splitter",
                       "pydra.engine.submitter.Submitter.__call__ (ill-formed requests, L2)"],
    stubs=["L1: none", "L2: vf/engine.py"],
    outside=["more than 4 fields", "equivalences other than one-element wrappers and re-bracketing of pure outer / pure inner chains"],
    assumptions=["two spellings 'agree' when both are rejected or both produce the same job input sequence"],
)

HELPERS = '''
import copy
from pydra.engine import state as ST
from vf.oracles import split as S
from vf.hl import splitrun as SR
T.assert_repo(ST)

def _states(tree, vals):
    try:
        st = ST.State("N", splitter=copy.deepcopy(S.prefix(tree, "N")))
        st.prepare_states(inputs={"N." + f: v for f, v in vals.items()})
        return st.states_val, None
    except Exception as e:
        return None, e

def _eq(t1, t2, vals):
    g1, e1 = _states(t1, vals)
    g2, e2 = _states(t2, vals)
    T.reach()
    if (g1 is None) != (g2 is None):
        return "spelling %r -> %r but spelling %r -> %r" % (t1, e1 or "%d states" % len(g1 or []), t2, e2 or "%d states" % len(g2 or []))
    if g1 is None:
        return None
    if len(g1) != len(g2):
        return "%r gives %d states, %r gives %d" % (t1, len(g1), t2, len(g2))
    for k in range(len(g1)):
        if sorted(g1[k]) != sorted(g2[k]):
            return "state %d keys differ" % k
        for key in g1[k]:
            if not (g1[k][key] == g2[k][key]):
                return "state %d: %s differs between spellings %r and %r" % (k, key, t1, t2)
    return None
'''


def wrappings(tree):
    """all trees obtained by wrapping exactly one sub-tree in a one-element list or tuple"""
    out = [[tree], (tree,)]
    if not isinstance(tree, str):
        for k, sub in enumerate(tree):
            for w in wrappings(sub):
                new = list(tree)
                new[k] = w
                out.append(type(tree)(new))
    return out


def rebracketings(fs, typ):
    """all binary/ternary bracketings of a chain of one operator"""
    return [t for t in S.trees(fs, 3, ("list",) if typ is list else ("tuple",))]


def pairs(tier, seed):
    rnd = random.Random(seed)
    ps = []
    bases = ["a"] + S.trees(["a", "b"]) + S.trees(["a", "b", "c"])
    for b in bases:
        ws = wrappings(b)
        if tier == "quick" and len(ws) > 4:
            ws = rnd.sample(ws, 4)
        ps += [(b, w) for w in ws]
    for typ in (list, tuple):
        for n in (3, 4):
            fs = ["a", "b", "c", "d"][:n]
            rb = rebracketings(fs, typ)
            flat = typ(fs)
            sel = rb if tier != "quick" else rnd.sample(rb, min(4, len(rb)))
            ps += [(flat, r) for r in sel if r != flat]
    return ps


def build(tier, seed, exclude):
    g = Gen("C05", exclude)
    g.raw(HELPERS)
    quick = tier == "quick"
    to = 12 if quick else 60
    n = 0
    for (t1, t2) in pairs(tier, seed):
        fs = sorted(set(S.fields(t1)))
        maxlen = 3 if len(fs) <= 2 else 2
        params = ", ".join(f"{f}: List[int]" for f in fs)
        pre = [" and ".join(f"len({f}) <= {maxlen}" for f in fs)]
        n += 1
        g.cond(f"h_eq{n:03d}_" + S.tree_name(t1), params, pre, f"""
            err = _eq({t1!r}, {t2!r}, {{{", ".join(f'"{f}": list({f})' for f in fs)}}})
            return T.fail(err) if err else True
        """, timeout=to)
    g.cond("twin_eq", "a: List[int]", ["len(a) <= 2"], """
        err = _eq("a", ["a"], {"a": list(a)})
        return err is not None
    """, timeout=30, kind="twin")
    # L2: spellings through Task.split (incl. keyword-only form) and ill-formed requests
    l2 = [("a", ["a"], False), (["a", "b"], ["a", ["b"]], False), (("a", "b"), ("a", ("b",)), False), (["a", "b"], None, True)]
    for k, (t1, t2, kw) in enumerate(l2):
        fs = sorted(set(S.fields(t1)))
        params = ", ".join(f"n{f}: int" for f in fs) + ", dup: bool"
        pre = [" and ".join(f"0 <= n{f} <= 2" for f in fs)]
        g.cond(f"h_l2eq{k}", params, pre, f"""
            err = SR.l2_equiv({t1!r}, {t2!r}, {{{", ".join(f'"{f}": n{f}' for f in fs)}}}, dup, 7, kw_only={kw})
            return T.fail(err) if err else True
        """, timeout=(50 if quick else 240))
    from vf.hl.splitrun import ILLFORMED
    for kind, nm in enumerate(ILLFORMED):
        g.cond(f"h_illformed_{nm}", "na: int, nb: int", ["1 <= na <= 2 and 1 <= nb <= 2"], f"""
            err = SR.l2_illformed({kind}, T.real(na), T.real(nb))
            return T.fail(err) if err else True
        """, timeout=(40 if quick else 120))
    return g.spec(bounds={"fields": "<= 4", "list length": "0-3 (<= 2 fields), 0-2 otherwise", "pairs": n,
                          "ill-formed kinds": 12})
