"""Run CrossHair on ONE harness function; print one JSON line (sub-process entry)."""
import ast
import collections
import importlib
import json
import sys
import time
import traceback


def parse_call(msg: str, fname: str):
    """'false when calling f(a=1, b="x") (which returns False)' -> [pos], {kw}"""
    i = msg.find("when calling ")
    if i < 0:
        return None
    src = msg[i + len("when calling "):]
    # cut trailing ' (which returns ...)' / ' (which raises ...)' by trying prefixes
    ends = [k for k, c in enumerate(src) if c == ")"]
    for k in ends:
        try:
            node = ast.parse(src[: k + 1], mode="eval").body
        except SyntaxError:
            continue
        if isinstance(node, ast.Call):
            return src[: k + 1]
    return None


def main():
    modname, fnname, timeout = sys.argv[1], sys.argv[2], float(sys.argv[3])
    per_path = float(sys.argv[4]) if len(sys.argv) > 4 else None
    out = {"fn": fnname, "verdict": "error", "messages": []}
    t0 = time.time()
    try:
        mod = importlib.import_module(modname)
        fn = getattr(mod, fnname)
        from crosshair.core_and_libs import analyze_function, run_checkables
        from crosshair.options import AnalysisOptionSet, AnalysisKind
        import vf.t as T

        import os
        if os.environ.get('VF_DEBUG'):
            from crosshair.util import set_debug
            set_debug(True)
        stats = collections.Counter()
        kw = dict(analysis_kind=[AnalysisKind.PEP316], per_condition_timeout=timeout,
                  report_all=True, stats=stats)
        if per_path:
            kw["per_path_timeout"] = per_path
        msgs = run_checkables(analyze_function(fn, AnalysisOptionSet(**kw)))
        verdict = "none"
        for m in msgs:
            st = m.state.name
            out["messages"].append({"state": st, "message": m.message, "line": m.line})
            if st in ("POST_FAIL", "EXEC_ERR", "POST_ERR"):
                verdict = "counterexample"
                out["call"] = parse_call(m.message, fnname)
                out["cex_message"] = m.message
                out["cex_state"] = st
            elif st == "CONFIRMED" and verdict == "none":
                verdict = "confirmed"
            elif st == "CANNOT_CONFIRM" and verdict in ("none", "confirmed"):
                verdict = "not_confirmed"
            elif st == "PRE_UNSAT" and verdict == "none":
                verdict = "pre_unsat"
            elif st in ("SYNTAX_ERR", "IMPORT_ERR"):
                verdict = "error"
        if not msgs:
            verdict = "no_conditions"
        out["verdict"] = verdict
        out["paths"] = int(stats.get("num_paths", 0))
        out["body"] = T.COUNTS["body"]
        out["reach"] = T.COUNTS["reach"]
        out["traced_detail"] = T.TRACED[-3:]
        out["dropped"] = T.COUNTS["dropped"]
        out["realised_samples"] = T.REALISED[:12]
    except BaseException as e:  # noqa
        out["verdict"] = "error"
        out["error"] = "".join(traceback.format_exception(type(e), e, e.__traceback__))[-3000:]
    out["wall_s"] = round(time.time() - t0, 3)
    print("@@RESULT@@" + json.dumps(out))


if __name__ == "__main__":
    main()
