"""Stage-a replay: run ONE harness call concretely, without CrossHair.

usage: python -m vf.replay <module> <fn> <call-expression | @file.json>
prints @@REPLAY@@{json}; "reproduced" is true iff the harness returns a falsy value
or raises (exactly what CrossHair reported as a counterexample).
"""
import importlib
import json
import sys
import traceback


def run(modname, fnname, call_src):
    mod = importlib.import_module(modname)
    import vf.t as T
    T.DETAIL.clear()
    ns = dict(vars(mod))
    out = {"fn": fnname, "call": call_src}
    try:
        val = eval(call_src, ns)
        out["returned"] = repr(val)[:500]
        out["reproduced"] = not bool(val)
    except Exception as e:
        out["raised"] = "".join(traceback.format_exception_only(type(e), e)).strip()[-800:]
        out["trace"] = "".join(traceback.format_exception(type(e), e, e.__traceback__))[-2500:]
        out["reproduced"] = True
    out["detail"] = list(T.DETAIL)
    return out


def main():
    modname, fnname, call = sys.argv[1], sys.argv[2], sys.argv[3]
    if call.startswith("@"):
        call = json.load(open(call[1:]))["call"]
    print("@@REPLAY@@" + json.dumps(run(modname, fnname, call)))


if __name__ == "__main__":
    main()
