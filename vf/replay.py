"""Stage-a replay: run ONE harness call concretely, without CrossHair.

usage: python -m vf.replay <module> <fn> <call-expression | @file.json>
prints @@REPLAY@@{json}; "reproduced" is true iff the harness returns a falsy value
or raises (exactly what CrossHair reported as a counterexample).
"""
import importlib
import json
import sys
import traceback


def run(modname, fnname, call_src):
    mod = importlib.import_module(modname)
    import vf.t as T
    T.DETAIL.clear()
    ns = dict(vars(mod))
    out = {"fn": fnname, "call": call_src}
    # CrossHair renders a one-element tuple of strings as ('x') -- re-wrap by annotation
    try:
        import ast, inspect, typing
        fn = ns[fnname]
        hints = typing.get_type_hints(fn)
        call = ast.parse(call_src, mode="eval").body
        names = list(inspect.signature(fn).parameters)
        fixed = False
        for i, a in enumerate(call.args):
            h = hints.get(names[i])
            if typing.get_origin(h) is tuple and not isinstance(a, ast.Tuple) and isinstance(a, ast.Constant):
                call.args[i] = ast.Tuple(elts=[a], ctx=ast.Load())
                fixed = True
        if fixed:
            call_src = ast.unparse(ast.fix_missing_locations(ast.Expression(call)))
            out["call"] = call_src
    except Exception:
        pass
    try:
        val = eval(call_src, ns)
        out["returned"] = repr(val)[:500]
        out["reproduced"] = not bool(val)
    except Exception as e:
        out["raised"] = "".join(traceback.format_exception_only(type(e), e)).strip()[-800:]
        out["trace"] = "".join(traceback.format_exception(type(e), e, e.__traceback__))[-2500:]
        out["reproduced"] = True
    out["detail"] = list(T.DETAIL)
    return out


def main():
    modname, fnname, call = sys.argv[1], sys.argv[2], sys.argv[3]
    if call.startswith("@"):
        call = json.load(open(call[1:]))["call"]
    print("@@REPLAY@@" + json.dumps(run(modname, fnname, call)))


if __name__ == "__main__":
    main()
