"""C28 harness helper: the real SlurmWorker.run coroutine driven by a scripted scheduler.

Stub contract: read_and_display_async (as seen from pydra.workers.base) returns the next scripted (rc, stdout, stderr)
for sbatch / squeue / sacct / scontrol and records every argv; asyncio.sleep (as seen from pydra.workers.slurm) returns at once;
for a FAILED job the scheduler's error file exists (as the real scheduler would have written it)."""
import os
import shlex

import vf.engine as E
import vf.rec as R
import vf.t as T

E.install_all()

import pydra.workers.base as WB  # noqa: E402
import pydra.workers.slurm as SL  # noqa: E402
from pydra.engine.job import Job  # noqa: E402
from pydra.engine.submitter import Submitter  # noqa: E402
from vf.hl import engdefs as D  # noqa: E402

STATES = ["RUNNING", "COMPLETED", "FAILED", "CANCELLED", "TIMEOUT", "PREEMPTED", "COMPLETED_NONZERO", "NO_ACCOUNTING", "PENDING"]
ARGS = ["", "-N 1", "-J myjob", "--job-name=myjob", "-Jmyjob", "-o out.txt", "--output=o.txt", "-oout.txt", "-e err.txt", "--error=e.txt",
        "-J a -o b -e c", "--no-requeue", "-N 1 --job-name=x --error=y"]


class _FakeAsyncio:
    @staticmethod
    async def sleep(t):
        return None


def drive(coro, budget=200):
    n = 0
    try:
        while True:
            coro.send(None)
            n += 1
            if n > budget:
                raise RuntimeError("coroutine suspended more than %d times" % budget)
    except StopIteration as e:
        return e.value


def run(sbatch_args, polls):
    """returns dict(result, error, calls, requeues)"""
    E.reset()
    R.clear()
    d = E.scratch()
    calls = []
    script = list(polls)
    state = {"cur": None, "jobid": "4321", "polls": 0}
    err_files = []

    async def fake(*cmd, hide_display=False, strip=False):
        calls.append(list(cmd))
        c = cmd[0]
        if c == "sbatch":
            for a in cmd[1:]:
                if a.startswith("--error="):
                    err_files.append(a[len("--error="):])
            toks = list(cmd[1:])
            for i, a in enumerate(toks):
                if a == "-e" and i + 1 < len(toks):
                    err_files.append(toks[i + 1])
            return 0, "Submitted batch job %s" % state["jobid"], ""
        if c == "squeue":
            state["polls"] += 1
            if state["polls"] > 30:
                raise RuntimeError("polled more than 30 times")
            state["cur"] = STATES[script.pop(0)] if script else "COMPLETED"
            if state["cur"] == "RUNNING":
                return 0, "%s R" % state["jobid"], ""
            return 0, "", ""
        if c == "sacct":
            cur = state["cur"]
            if cur == "NO_ACCOUNTING":
                return 0, "", ""
            if cur == "FAILED":
                for f in err_files:
                    p = f.replace("%j", state["jobid"])
                    os.makedirs(os.path.dirname(p) or ".", exist_ok=True)
                    with open(p, "w") as fp:
                        fp.write("Traceback\nException: boom\n")
            txt = {"COMPLETED": "COMPLETED 0:0", "FAILED": "FAILED 1:0", "CANCELLED": "CANCELLED+ 0:0", "TIMEOUT": "TIMEOUT 0:0",
                   "PREEMPTED": "PREEMPTED 0:0", "COMPLETED_NONZERO": "COMPLETED 2:0", "PENDING": "PENDING 0:0", "RUNNING": "RUNNING 0:0"}[cur]
            return 0, "%s %s" % (state["jobid"], txt), ""
        if c == "scontrol":
            return 0, "", ""
        raise RuntimeError("unexpected command %r" % (cmd,))

    saved = (WB.read_and_display_async, SL.asyncio)
    WB.read_and_display_async = fake
    SL.asyncio = _FakeAsyncio
    res = err = None
    cwd = os.getcwd()
    try:
        os.chdir(d)
        sub = Submitter(cache_root=d, worker="debug")
        job = Job(D.Flaky(x=1, tag=8), submitter=sub, name="main")
        w = SL.SlurmWorker(sbatch_args=sbatch_args)
        try:
            res = drive(w.run(job))
        except Exception as e:
            err = e
    finally:
        os.chdir(cwd)
        WB.read_and_display_async, SL.asyncio = saved
        E.cleanup(d)
    return dict(result=res, error=err, calls=calls, remaining=script)


def _count_opts(tokens, short, long):
    n = 0
    for t in tokens:
        if t == "-" + short or (t.startswith("-" + short) and not t.startswith("--") and len(t) > 2) or t == "--" + long or t.startswith("--" + long + "="):
            n += 1
    return n


def c28(arg_i, polls):
    sargs = ARGS[arg_i]
    out = run(sargs, polls)
    T.reach()
    calls = out["calls"]
    desc = "sbatch_args=%r polls=%s" % (sargs, [STATES[p] for p in polls])
    sb = [c for c in calls if c[0] == "sbatch"]
    if len(sb) != 1:
        return "%s: sbatch invoked %d times (error %r)" % (desc, len(sb), out["error"])
    toks = sb[0][1:]
    for short, long in (("J", "job-name"), ("o", "output"), ("e", "error")):
        n = _count_opts(toks, short, long)
        if n != 1:
            return "%s: submitted with %d %s options: %r" % (desc, n, long, toks)
    user = shlex.split(sargs)
    if any(u not in toks for u in user):
        return "%s: user options %r not passed through: %r" % (desc, user, toks)
    # oracle over the response sequence
    expect = None
    requeues = 0
    no_requeue = "--no-requeue" in sargs
    for p in polls:
        s = STATES[p]
        if s in ("RUNNING", "PENDING"):
            continue
        if s == "COMPLETED":
            expect = "complete"
            break
        if s in ("FAILED", "COMPLETED_NONZERO"):
            expect = "failed"
            break
        if s == "NO_ACCOUNTING":
            expect = "any"
            break
        if s in ("CANCELLED", "TIMEOUT", "PREEMPTED"):
            if no_requeue:
                expect = "any"
                break
            requeues += 1
    if expect is None:
        expect = "complete"          # the script then answers COMPLETED
    got_requeues = len([c for c in calls if c[:2] == ["scontrol", "requeue"]])
    if expect == "complete":
        if out["error"] is not None or out["result"] is not True:
            return "%s: scheduler reported successful completion but the worker gave %r / %r" % (desc, out["result"], out["error"])
    elif expect == "failed":
        if out["error"] is None:
            return "%s: scheduler reported failure but the worker returned %r" % (desc, out["result"])
    if expect != "any" and got_requeues != requeues:
        return "%s: %d requeue requests, expected %d" % (desc, got_requeues, requeues)
    return None


def sge_smoke():
    """drive SgeWorker.run once with a scheduler that accepts the array job and reports it done; returns the exception (or None)"""
    import pydra.workers.sge as SG
    E.reset()
    R.clear()
    d = E.scratch()
    calls = []

    async def fake(*cmd, hide_display=False, strip=False):
        calls.append(list(cmd))
        if cmd[0] == "qsub":
            return 0, "Your job-array 77.1-1:1 has been submitted", ""
        if cmd[0] == "qstat":
            return 0, "", ""
        if cmd[0] == "qacct":
            return 0, "exit_status 0\nfailed 0\n", ""
        return 0, "", ""

    class FA:
        @staticmethod
        async def sleep(t):
            return None

    saved = (WB.read_and_display_async, SG.asyncio)
    WB.read_and_display_async = fake
    SG.asyncio = FA
    err = None
    cwd = os.getcwd()
    try:
        os.chdir(d)
        sub = Submitter(cache_root=d, worker="debug")
        job = Job(D.Flaky(x=1, tag=9), submitter=sub, name="main")
        w = SG.SgeWorker(poll_delay=0, collect_jobs_delay=0)
        try:
            drive(w.run(job), budget=500)
        except Exception as e:
            err = e
    finally:
        os.chdir(cwd)
        WB.read_and_display_async, SG.asyncio = saved
        E.cleanup(d)
    return err, calls
