"""Generated task definitions with requirement / xor rules (C31, reused by C32)."""
import typing as ty

STRS = [None, "x", "y", "other"]
INTS = [None, 1, 2, 7]


def gen_rules(rnd, nfields):
    """returns spec: fields [(name, kind)], requires {name: [[(req_name, allowed|None), ...], ...]}, xor [[names|None]]"""
    names = ["fa", "fb", "fc", "fd", "fe"][:nfields]
    fields = [(n, rnd.choice(["bool", "str", "int"])) for n in names]
    kinds = dict(fields)
    requires = {}
    for n in names:
        if rnd.random() < 0.5:
            alts = []
            for _ in range(rnd.choice([1, 1, 2])):
                others = [m for m in names if m != n]
                reqs = []
                for m in rnd.sample(others, rnd.choice([1, 1, 2]) if len(others) > 1 else 1):
                    allowed = None
                    if kinds[m] == "str" and rnd.random() < 0.5:
                        allowed = rnd.choice([["x"], ["x", "y"], ["x"], []])
                    elif kinds[m] == "int" and rnd.random() < 0.5:
                        allowed = rnd.choice([[1], [1, 2], [1], []])
                    reqs.append((m, allowed))
                alts.append(reqs)
            requires[n] = alts
    xor = []
    pool = list(names)
    rnd.shuffle(pool)
    for _ in range(rnd.choice([0, 1, 1, 2])):
        if len(pool) < 2:
            break
        k = rnd.choice([2, 2, 3]) if len(pool) >= 3 else 2
        grp = [pool.pop() for _ in range(k)]
        if rnd.random() < 0.5:
            grp.append(None)
        xor.append(grp)
    if xor and pool and rnd.random() < 0.4:
        # overlapping groups: a second group that contains the first one
        grp = [m for m in xor[0] if m is not None] + [pool.pop()]
        if rnd.random() < 0.3:
            grp.append(None)
        xor.append(grp)
    return {"fields": fields, "requires": requires, "xor": xor}


def make_task(spec, name="Rules"):
    from pydra.compose import python
    inputs = {}
    for n, kind in spec["fields"]:
        tp = {"bool": bool, "str": ty.Optional[str], "int": ty.Optional[int]}[kind]
        kw = dict(type=tp, default=False if kind == "bool" else None)
        if n in spec["requires"]:
            kw["requires"] = [[(m if a is None else (m, a)) for m, a in alt] for alt in spec["requires"][n]]
        inputs[n] = python.arg(**kw)

    fn = {3: fn3, 4: fn4, 5: fn5}[len(spec["fields"])]
    return python.define(fn, inputs=inputs, outputs={"out": int}, xor=[list(g) for g in spec["xor"]], name=name)


def fn3(fa, fb, fc):
    import vf.rec as R
    R.rec("Rules", (fa, fb, fc))
    return 1


def fn4(fa, fb, fc, fd):
    import vf.rec as R
    R.rec("Rules", (fa, fb, fc, fd))
    return 1


def fn5(fa, fb, fc, fd, fe):
    import vf.rec as R
    R.rec("Rules", (fa, fb, fc, fd, fe))
    return 1


def to_value(kind, raw):
    if kind == "bool":
        return raw
    return (STRS if kind == "str" else INTS)[raw]


def is_set(v):
    return v is not None and v is not False


def rule_holds(spec, vals):
    kinds = dict(spec["fields"])
    for n, alts in spec["requires"].items():
        if not is_set(vals[n]):
            continue
        ok = False
        for alt in alts:
            if all(is_set(vals[m]) and (a is None or vals[m] in a) for m, a in alt):
                ok = True
        if not ok:
            return False
    for grp in spec["xor"]:
        cnt = sum(1 for m in grp if m is not None and is_set(vals[m]))
        if cnt > 1:
            return False
        if cnt == 0 and None not in grp:
            return False
    return True
