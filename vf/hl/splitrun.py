"""Engine-level (L2) split/combine harness helper: the real Task.split/.combine through the real
Submitter and debug worker on a scratch cache root; bodies record their inputs in vf.rec."""
import copy

import vf.engine as E
import vf.rec as R
import vf.t as T
from vf.oracles import split as S

E.install_all()

from pydra.compose import python  # noqa: E402

BASE = {"a": 100, "b": 200, "c": 300, "d": 400}


import typing as _ty


@python.define
def Rec(a: _ty.Any = 0, b: _ty.Any = 0, c: _ty.Any = 0, d: _ty.Any = 0, u: int = 7) -> tuple:
    import vf.rec as R
    R.rec("Rec", a, b, c, d, u)
    return (a, b, c, d, u)


TOKENS = 4     # element kinds: 0 distinct ints, 1 a None element, 2 falsy elements (0, "", False), 3 container-valued elements


def values(lens, dup, tok=0):
    vals = {f: [BASE[f] + i for i in range(n)] for f, n in lens.items()}
    if dup and lens.get("a", 0) >= 2:
        vals["a"][-1] = vals["a"][0]
    for f, v in vals.items():
        if not v:
            continue
        if tok == 1:
            v[len(v) // 2] = None
        elif tok == 2:
            for i, x in enumerate([0, "", False][: len(v)]):
                v[i] = x
        elif tok == 3:
            v[0] = [BASE[f], BASE[f] + 1]
            if len(v) > 1:
                v[-1] = (BASE[f],)
    return vals


def job_tuple(vals, idx, u):
    return tuple(vals[f][idx[f]] if f in idx else 0 for f in "abcd") + (u,)


def _key(x):
    """hashable rendering of a recorded value (lists/tuples keep their kind)"""
    if isinstance(x, list):
        return ("list",) + tuple(_key(e) for e in x)
    if isinstance(x, tuple):
        return ("tuple",) + tuple(_key(e) for e in x)
    return (type(x).__name__, x)


def run_split(tree, lens, dup, u, combiner=None, tok=0):
    """returns (got_outputs | None, error, bodies)"""
    E.reset()
    R.clear()
    vals = values(lens, dup, tok)
    d = E.scratch()
    got = err = None
    try:
        t = Rec(u=u).split(copy.deepcopy(tree), **{f: list(v) for f, v in vals.items()})
        if combiner:
            t = t.combine(list(combiner))
        out = t(cache_root=d, worker="debug")
        got = out.out
    except Exception as e:
        err = e
    finally:
        E.cleanup(d)
    return got, err, [ev[1:] for ev in R.LOG if ev[0] == "Rec"], vals


def l2_split(tree, lens, dup, u, tok=0):
    """C01 at engine level; returns error text or None"""
    verdict, want = "accept", None
    try:
        want = S.expand(tree, lens)
        S.shape(tree, lens)
    except S.Reject:
        verdict = "reject"
    except S.MayReject:
        verdict = "may"
    got, err, bodies, vals = run_split(tree, lens, dup, u, tok=tok)
    T.reach()
    if verdict == "reject":
        if got is not None:
            return "inner product of different lengths accepted: outputs %r" % (got,)
        if bodies:
            return "rejected only after %d jobs ran (%r)" % (len(bodies), err)
        return None
    if got is None:
        if verdict == "may":
            return None if not bodies else "rejected after jobs ran"
        return "well-formed split rejected: %r" % (err,)
    exp = [job_tuple(vals, idx, u) for idx in want]
    if [_key(tuple(x)) for x in got] != [_key(e) for e in exp]:
        return "outputs %r, reference %r" % (list(got), exp)
    kb, ke = [_key(b) for b in bodies], [_key(e) for e in exp]
    if sorted(set(kb), key=repr) != sorted(set(ke), key=repr) or len(kb) != len(set(ke)):
        return "bodies ran with %r, reference jobs %r (each distinct input exactly once)" % (bodies, exp)
    return None


def l2_combine(tree, comb, lens, dup, u):
    """C02 at engine level: returned nesting and content equal the reference partition"""
    try:
        jobs = S.expand(tree, lens)
        S.shape(tree, lens)
    except (S.Reject, S.MayReject):
        return None
    want, remaining = S.combine(tree, lens, comb)
    got, err, bodies, vals = run_split(tree, lens, dup, u, combiner=comb)
    T.reach()
    if got is None:
        return "well-formed split/combine rejected: %r" % (err,)
    exp_jobs = [job_tuple(vals, idx, u) for idx in jobs]
    if not remaining:
        exp = exp_jobs
        if [tuple(x) for x in got] != exp:
            return "full combine returned %r, reference flat list %r" % (got, exp)
    else:
        exp = [[exp_jobs[i] for i in grp] for grp in want]
        try:
            norm = [[tuple(x) for x in grp] for grp in got]
        except TypeError:
            return "returned %r, reference nesting %r" % (got, exp)
        if norm != exp:
            return "returned %r, reference %r" % (got, exp)
    if sorted(set(bodies)) != sorted(set(exp_jobs)) or len(bodies) != len(set(exp_jobs)):
        return "bodies %r, reference jobs %r" % (bodies, exp_jobs)
    return None


def l2_equiv(t1, t2, lens, dup, u, kw_only=False):
    """C05: two spellings run the same jobs with the same inputs in the same order"""
    g1, e1, b1, vals = run_split(t1, lens, dup, u)
    if kw_only:
        E.reset()
        R.clear()
        d = E.scratch()
        g2 = e2 = None
        try:
            out = Rec(u=u).split(**{f: list(v) for f, v in vals.items()})(cache_root=d, worker="debug")
            g2 = out.out
        except Exception as e:
            e2 = e
        finally:
            E.cleanup(d)
        b2 = [ev[1:] for ev in R.LOG if ev[0] == "Rec"]
    else:
        g2, e2, b2, _ = run_split(t2, lens, dup, u)
    T.reach()
    if (g1 is None) != (g2 is None):
        return "spelling %r -> %r, spelling %r -> %r" % (t1, e1 or "ok", t2, e2 or "ok")
    if g1 is None:
        return None
    if [tuple(x) for x in g1] != [tuple(x) for x in g2]:
        return "spelling %r gives %r, spelling %r gives %r" % (t1, list(g1), t2, list(g2))
    if b1 != b2:
        return "job inputs differ: %r vs %r" % (b1, b2)
    return None


@python.define
def RecSub(a: _ty.Any = 0, ab: _ty.Any = 0, x_ref: _ty.Any = 0, x: _ty.Any = 0) -> tuple:
    import vf.rec as R
    R.rec("Rec", a, ab, x_ref, x)
    return (a, ab, x_ref, x)


ILLFORMED = ["dup_field", "missing_value", "extra_value", "combiner_not_split", "combine_without_split",
             "ndim_unsplit_field", "split_twice", "combiner_unknown_field", "dup_field_nested", "extra_value_substring_name",
             "extra_value_substring_name2", "missing_value_substring_name"]


def l2_illformed(kind, na, nb):
    """C05: ill-formed requests raise before any job body runs; returns error text or None"""
    E.reset()
    R.clear()
    a = [BASE["a"] + i for i in range(na)]
    b = [BASE["b"] + i for i in range(nb)]
    d = E.scratch()
    raised = None
    try:
        k = ILLFORMED[kind]
        if k == "dup_field":
            t = Rec().split(["a", "a"], a=a)
        elif k == "dup_field_nested":
            t = Rec().split(["a", ("b", "a")], a=a, b=b)
        elif k == "missing_value":
            t = Rec().split(["a", "b"], a=a)
        elif k == "extra_value":
            t = Rec().split("a", a=a, b=b)
        elif k == "combiner_not_split":
            t = Rec(b=1).split("a", a=a).combine("b")
        elif k == "combine_without_split":
            t = Rec(a=1).combine("a")
        elif k == "ndim_unsplit_field":
            t = Rec(b=1).split("a", a=a, container_ndim={"b": 2})
        elif k == "split_twice":
            t = Rec().split("a", a=a).split("b", b=b)
        elif k == "combiner_unknown_field":
            t = Rec().split("a", a=a).combine("zz")
        elif k == "extra_value_substring_name":
            t = RecSub().split("ab", ab=a, a=b)            # 'a' is not split although its name is part of 'ab'
        elif k == "extra_value_substring_name2":
            t = RecSub().split(["x_ref", "a"], x_ref=a, a=b, x=a)
        elif k == "missing_value_substring_name":
            t = RecSub().split(["ab", "a"], ab=a)
        out = t(cache_root=d, worker="debug")
    except Exception as e:
        raised = e
    finally:
        E.cleanup(d)
    T.reach()
    bodies = [ev for ev in R.LOG if ev[0] == "Rec"]
    if raised is None:
        return "%s (a=%r, b=%r) was accepted: %r" % (ILLFORMED[kind], a, b, out)
    if bodies:
        return "%s rejected only after %d job(s) ran: %r" % (ILLFORMED[kind], len(bodies), raised)
    return None
