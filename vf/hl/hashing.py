"""IdealHash: stands in for blake2b inside pydra.utils.hash so that symbolic values survive hashing.

Contract (assumption in every evidence file that uses it): equal byte streams get the same 16-byte
token, different streams get different tokens (BLAKE2b is assumed collision-free on the streams of
the bound).  Deciding whether two *symbolic* streams are equal is exactly the fork the solver decides."""
import pydra.utils.hash as H

_real_blake2b = H.blake2b
TABLE = []


class IdealHash:
    def __init__(self, data=b"", **kw):
        self.chunks = [data] if data else []

    def update(self, b):
        self.chunks.append(b)

    def digest(self):
        s = b"".join(bytes(c) if not isinstance(c, bytes) else c for c in self.chunks)
        for (t, tok) in TABLE:
            if len(t) == len(s) and t == s:
                return tok
        tok = b"\xfe" + (len(TABLE) + 1).to_bytes(15, "big")
        TABLE.append((s, tok))
        return tok

    def hexdigest(self):
        return self.digest().hex()


def install():
    H.blake2b = IdealHash


def uninstall():
    H.blake2b = _real_blake2b


def reset():
    TABLE.clear()


def hs(obj, cache=None):
    """hash of obj as hex string (through the real hash_object / hash_single / bytes_repr_*)"""
    return H.hash_function(obj) if cache is None else H.hash_function(obj, cache=cache)


def stream(obj):
    """the top-level byte stream the real serializers produce for obj (sub-objects appear as tokens)"""
    return b"".join(bytes(c) for c in H.bytes_repr(obj, H.Cache()) if not isinstance(c, tuple))


class OrdSet(set):
    """a set whose iteration order is chosen by the harness (models hash-seed / insertion-order effects)"""
    _order = None

    def __iter__(self):
        return iter(self._order if self._order is not None else list(set.__iter__(self)))


OrdSet.__name__ = "set"


class OrdFrozenSet(frozenset):
    _order = None

    def __iter__(self):
        return iter(self._order if self._order is not None else list(frozenset.__iter__(self)))


OrdFrozenSet.__name__ = "frozenset"


class OrdDict(dict):
    _order = None

    def __iter__(self):
        return iter(self._order if self._order is not None else list(dict.__iter__(self)))

    def keys(self):
        return list(iter(self))

    def items(self):
        return [(k, self[k]) for k in self]


OrdDict.__name__ = "dict"


def permuted(elems, perm):
    """elems reordered by the (symbolic) permutation code perm"""
    elems = list(elems)
    out = []
    for k in range(len(elems), 0, -1):
        out.append(elems.pop(perm % k))
        perm //= k
    return out


class SymStat:
    def __init__(self, mtime_ns, ctime_ns, size, ino):
        self.st_mtime_ns, self.st_ctime_ns, self.st_size, self.st_ino = mtime_ns, ctime_ns, size, ino
        self.st_mtime, self.st_ctime = mtime_ns / 1e9, ctime_ns / 1e9
        self.st_atime = self.st_mtime
        self.st_mode = 0o100644


class SymPath:
    """path-like whose lstat()/stat() are supplied by the harness (symbolic)"""

    def __init__(self, name, state):
        self.name, self.state = name, state

    def lstat(self):
        return SymStat(*self.state["stat"])

    stat = lstat

    def __repr__(self):
        return "SymPath(%r)" % (self.name,)

    def __lt__(self, other):
        return self.name < other.name

    def __fspath__(self):
        return self.name


class SymFile:
    """stand-in for a fileformats FileSet, serialised by the *real* bytes_repr_fileset: exposes
    fspaths (with symbolic stat) and byte_chunks() (the current symbolic content)"""

    def __init__(self, name, state):
        self.state = state
        self.fspaths = [SymPath(name, state)]

    def byte_chunks(self):
        yield (self.fspaths[0].name, iter([self.state["content"]]))


def register_symfile():
    import pydra.utils.hash as H
    if SymFile not in H.bytes_repr.registry:
        H.register_serializer(SymFile)(H.bytes_repr_fileset)
