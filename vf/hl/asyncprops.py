"""Harness helpers for C14-C18: run a workflow shape under a symbolic schedule and judge the event log."""
import vf.engine as E
import vf.rec as R
import vf.t as T
from vf.hl import sched as S
from vf.hl import engdefs as D

# shape -> (constructor(fails: dict), nodes {name: (tag, [deps])}, expected outputs(x))
SHAPES = {
    "indep": dict(nodes={"f": (1, []), "k": (2, []), "m": (3, ["k"])},
                  make=lambda x, fails: D.IndepChains(x=x, f_fails="f" in fails, k_fails="k" in fails),
                  outputs=lambda x: {"f": x + 1, "m": x + 2 + 3}),
    "forkjoin": dict(nodes={"s": (1, []), "p": (2, ["s"]), "q": (3, ["s"]), "j": (4, ["p", "q"]), "t": (5, []), "u": (6, ["t"])},
                     make=lambda x, fails: D.ForkJoin(x=x, p_fails="p" in fails, q_fails="q" in fails),
                     outputs=lambda x: {"j": (x + 1 + 2) * 1000 + (x + 1 + 3) + 4, "t": x + 5 + 6}),
}
SHAPES["wide"] = dict(nodes={"a": (1, []), "b": (2, []), "c": (3, []), "d": (4, [])},
                      make=lambda x, fails: D.Wide(x=x),
                      outputs=lambda x: {"a": x + 1, "b": x + 2, "c": x + 3, "d": x + 4})
SHAPES["splitfail"] = dict(nodes={"s": (1, []), "d": (2, ["s"]), "i1": (3, []), "i2": (4, ["i1"]), "i3": (5, ["i2"])},
                           make=lambda x, fails: D.SplitPartialFail(xs=[5, 6, 7], fail_on=6 if "s" in fails else -1),
                           outputs=lambda x: {"d": [8, 9, 10], "i": 13})
SHAPES["dupref"] = dict(nodes={"a": (1, []), "c": (2, []), "d": (3, ["c"]), "b": (4, ["d"]), "j": (5, ["a", "b"])},
                        make=lambda x, fails: D.DupRef(x=x),
                        outputs=lambda x: {"j": (x + 1) * 10000 + (x + 1) * 100 + (x + 2 + 3 + 4) + 5})
SHAPES["twobranch"] = dict(nodes={"a": (1, []), "c": (2, []), "b": (3, ["a"]), "d": (4, ["c"]), "x": (5, ["b"]), "y": (6, ["d"])},
                           make=lambda x, fails: D.TwoBranches(x=x, a_fails="a" in fails),
                           outputs=lambda x: {"x": x + 1 + 3 + 5, "y": x + 2 + 4 + 6})
SHAPES["nestedfail"] = dict(nodes={"r1": (1, []), "r2": (2, ["r1"]), "r3": (3, ["r2"]), "a": (11, []), "b": (12, ["a"])},
                            make=lambda x, fails: D.NestedFail(x=x, inner_fails="a" in fails),
                            outputs=lambda x: {"s": x + 11 + 12, "r": x + 1 + 2 + 3})
FAILABLE = {"indep": ["f", "k"], "forkjoin": ["p", "q"], "splitfail": ["s"], "twobranch": ["a"], "nestedfail": ["a"]}


def tag_of(ev):
    return ev[4] if ev[0] == "Join3" else ev[3] if ev[0] == "Join" else ev[2]


def ancestors(nodes, n):
    out, todo = set(), list(nodes[n][1])
    while todo:
        a = todo.pop()
        if a not in out:
            out.add(a)
            todo.extend(nodes[a][1])
    return out


def run_shape(shape, fails, choices, max_concurrent=None, x=1, warm_rerun=False, all_complete=False, lagging=False):
    E.reset()
    R.clear()
    d = E.scratch()
    try:
        if warm_rerun:
            # first a plain run (fills the cache), then the run under test with rerun=True
            S.run_async(SHAPES[shape]["make"](x, fails), d, (), max_concurrent)
            R.clear()
            E.reset()
            S.reset(choices)
            S.STATE["all_complete"] = bool(all_complete)
            sub = S.submitter(d, max_concurrent)
            res = err = None
            try:
                res = sub(SHAPES[shape]["make"](x, fails), raise_errors=True, rerun=True)
            except Exception as e:
                err = e
            ev = list(S.STATE["events"])
        elif lagging:
            S.reset(choices)
            S.STATE["lagging"] = True
            sub = S.submitter(d, max_concurrent)
            res = err = None
            try:
                res = sub(SHAPES[shape]["make"](x, fails), raise_errors=True)
            except Exception as e:
                err = e
            ev = list(S.STATE["events"])
        else:
            res, err, ev = S.run_async(SHAPES[shape]["make"](x, fails), d, choices, max_concurrent)
    finally:
        E.cleanup(d)
    stats = dict(S.STATE)
    if stats.get("budget_hit") and not isinstance(err, S.BudgetExceeded):
        err = S.BudgetExceeded(stats["budget_hit"])       # pydra replaced it on the way out
    return res, err, ev, stats


def c14(shape, fail_bits, choices, lagging=False, max_concurrent=None):
    spec = SHAPES[shape]
    fails = {n for k, n in enumerate(FAILABLE[shape]) if (fail_bits >> k) & 1}
    res, err, ev, stats = run_shape(shape, fails, choices, max_concurrent, lagging=lagging)
    T.reach()
    nodes = spec["nodes"]
    tags = {tag_of(b) for b in R.LOG if b[0] in ("Node", "Join")}
    tag2name = {t: n for n, (t, _) in nodes.items()}
    executed = {tag2name[t] for t in tags}
    should = {n for n in nodes if not (ancestors(nodes, n) & fails)}
    desc = "%s with failing %s, schedule %s%s" % (shape, sorted(fails), list(choices), "" if max_concurrent is None else ", max_concurrent %s" % max_concurrent)
    if isinstance(err, S.BudgetExceeded):
        return "%s: no progress (%s)" % (desc, err)
    if shape == "splitfail":
        # the elements of the split node are independent of each other: every one of them is executed
        elems = sorted(b[1] for b in R.LOG if b[0] == "Node" and tag_of(b) == 1)
        if elems != [5, 6, 7]:
            return "%s: elements of the split node executed: %s, expected [5, 6, 7] (one failing element must not stop its siblings)" % (desc, elems)
    if should - executed:
        return "%s: independent job(s) %s never executed (executed: %s)" % (desc, sorted(should - executed), sorted(executed))
    if executed - should:
        return "%s: job(s) %s ran although an upstream job failed" % (desc, sorted(executed - should))
    if fails:
        if err is None:
            return "%s: workflow reported success" % desc
        text = str(err) + "".join(getattr(err, "__notes__", []))
        import re as _re
        missing = [n for n in fails if not _re.search(r"'%s(\(\d+\))?'" % _re.escape(n), text)]
        if missing:
            return "%s: the error does not name failed job(s) %s: %s" % (desc, missing, text[:300])
    else:
        if err is not None:
            return "%s: failed without any failing job: %r" % (desc, err)
        got = {k: getattr(res.outputs, k) for k in spec["outputs"](1)}
        if got != spec["outputs"](1):
            return "%s: outputs %r, expected %r" % (desc, got, spec["outputs"](1))
    return None


def c15(shape, choices, max_concurrent=None, warm_rerun=False, all_complete=False):
    """no faults: starts only after consumed jobs finished ok; every job exactly once"""
    spec = SHAPES[shape]
    res, err, ev, stats = run_shape(shape, set(), choices, max_concurrent, warm_rerun=warm_rerun, all_complete=all_complete)
    T.reach()
    desc = "%s, schedule %s, max_concurrent %s%s" % (shape, list(choices), max_concurrent, ", rerun on a warm cache" if warm_rerun else "")
    if err is not None:
        return "%s: failed: %r" % (desc, err)
    nodes = spec["nodes"]
    finished, started = set(), []
    for kind, label in ev:
        name = label[0]
        if kind == "start":
            missing = [d for d in nodes.get(name, (0, []))[1] if d not in finished]
            if missing:
                return "%s: job %s started before %s finished (events %s)" % (desc, name, missing, ev)
            started.append(name)
        elif kind == "finish-ok":
            finished.add(name)
    counts = {}
    for b in R.LOG:
        counts[tag_of(b)] = counts.get(tag_of(b), 0) + 1
    tag2name = {t: n for n, (t, _) in nodes.items()}
    if sorted(tag2name[t] for t in counts) != sorted(nodes) or any(c != 1 for c in counts.values()):
        return "%s: body execution counts %r (every job exactly once)" % (desc, {tag2name.get(t, t): c for t, c in counts.items()})
    got = {k: getattr(res.outputs, k) for k in spec["outputs"](1)}
    if got != spec["outputs"](1):
        return "%s: outputs %r, expected %r" % (desc, got, spec["outputs"](1))
    return None


SHAPES["nested"] = dict(nodes={}, make=lambda x, fails: D.Nested(x=x), outputs=lambda x: {})


def c16(shape, choices, k, warm_rerun=False):
    res, err, ev, stats = run_shape(shape, set(), choices, max_concurrent=k, warm_rerun=warm_rerun)
    T.reach()
    if isinstance(err, S.BudgetExceeded):
        return "%s k=%d schedule %s: no progress (%s)" % (shape, k, list(choices), err)
    if stats["max_inflight"] > k:
        return "%s%s: max_concurrent=%d but %d jobs were in flight at once (schedule %s, events %s)" % (
            shape, " (rerun on a warm cache)" if warm_rerun else "", k, stats["max_inflight"], list(choices), ev)
    if err is not None:
        return "%s k=%d: failed %r" % (shape, k, err)
    return None


# ------------------------------------------------------------------ C18
def c18(i, j, typed, use_async, choices, second=None):
    """late assignment node_i.inputs.x = node_j.out (back edges and self edges included); the submission must end
    with outputs or an ordinary error within budgets derived from the code"""
    import pydra.engine.graph as G
    from crosshair.tracers import NoTracing
    E.reset()
    R.clear()
    S.install()
    S.reset(choices)
    calls = {"n": 0}
    real = G.DiGraph._sorting

    def budgeted(self, notsorted_list, predecessors):
        calls["n"] += 1
        if calls["n"] > 60:          # sorting n nodes needs at most n rounds of _sorting (each places >= 1 node)
            raise S.BudgetExceeded("DiGraph._sorting called more than 60 times for 3-5 nodes")
        return real(self, notsorted_list, predecessors)

    G.DiGraph._sorting = budgeted
    R.FLAGS["late"] = None if i < 0 else ([(i, j)] + ([second] if second else []))
    d = E.scratch()
    res = err = None
    try:
        with E.deadline(25):
            task = D.LateAssign(x=1, typed=typed)
            if use_async:
                res, err, ev = S.run_async(task, d, choices)
            else:
                try:
                    res = task(cache_root=d, worker="debug")
                except Exception as e:
                    err = e
    except E.HangDetected as e:
        err = S.BudgetExceeded(str(e))
    except Exception as e:
        err = e
    finally:
        G.DiGraph._sorting = real
        R.FLAGS.pop("late", None)
        E.cleanup(d)
    if S.STATE.get("budget_hit") and not isinstance(err, S.BudgetExceeded):
        err = S.BudgetExceeded(S.STATE["budget_hit"])
    T.reach()
    desc = "late assignment %s.x = %s.out%s (%s fields, %s loop)" % ("abc"[i] if i >= 0 else "-", "abc"[j],
                                                                      " and %s.x = %s.out" % ("abc"[second[0]], "abc"[second[1]]) if second else "",
                                                                      "typed" if typed else "Any", "async" if use_async else "sync")
    if isinstance(err, S.BudgetExceeded):
        return "%s: the submission does not terminate (%s)" % (desc, err)
    if err is None and res is None:
        return "%s: neither outputs nor an error" % desc
    return None
