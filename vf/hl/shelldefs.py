"""Generated shell task definitions shared by C22-C24/C32 (concrete definitions, symbolic values)."""
import random
import typing as ty

KINDS = ["flag", "str", "int", "strT", "listsp", "listcomma", "listrep", "multi", "float"]
POSITIONS = [None, None, 1, 2, 3, 4, -1, -2, -3]


def gen_specs(rnd, nfields, compact=True):
    """compact=True: explicit non-negative positions are 1..k and negative ones -1..-m, the only
    definitions for which 'argv index' and 'positioned first, unpositioned in between' coincide"""
    names = ["fa", "fb", "fc", "fd", "fe"][:nfields]
    if compact:
        k = rnd.randint(0, nfields)
        m = rnd.randint(0, nfields - k)
        poss = list(range(1, k + 1)) + list(range(-m, 0)) + [None] * (nfields - k - m)
        rnd.shuffle(poss)
    else:
        poss = [p if rnd.random() < 0.7 else None for p in rnd.sample([1, 2, 3, 4, -1, -2, -3, -4], nfields)]
        # keep python-index positions non-overlapping (builder rejects overlaps)
        idx = [p if p is None or p >= 0 else nfields + 1 + p for p in poss]
        if len([i for i in idx if i is not None]) != len({i for i in idx if i is not None}) or any(i is not None and not 1 <= i <= nfields for i in idx):
            return gen_specs(rnd, nfields, compact)
    specs = []
    for i, nm in enumerate(names):
        kind = rnd.choice(KINDS)
        position = poss[i]
        flag = "-" + nm[1]
        if kind == "flag":
            s = dict(kind="flag", argstr=flag)
        elif kind == "str":
            s = dict(kind="str", argstr=rnd.choice([flag, "", "--" + nm]))
        elif kind == "int":
            s = dict(kind="int", argstr=rnd.choice([flag, ""]))
        elif kind == "float":
            s = dict(kind="float", argstr=flag)
        elif kind == "strT":
            s = dict(kind="str", argstr="--%s={%s}" % (nm, nm))
        elif kind == "listsp":
            s = dict(kind="list", argstr=flag, sep=" ")
        elif kind == "listcomma":
            s = dict(kind="list", argstr=flag, sep=",")
        elif kind == "listrep":
            s = dict(kind="list", argstr=flag + "...", sep=" ")
        else:
            s = dict(kind="multi", argstr=flag)
        s.update(name=nm, position=position)
        specs.append(s)
    return specs


def gen_wide_specs(rnd):
    """9-12 fields, most of them explicitly positioned (1..k and -m..-1), 2-4 unpositioned ones in between"""
    n = rnd.randint(9, 12)
    u = rnd.randint(2, 4)
    m = rnd.randint(0, 3)
    k = n - u - m
    poss = list(range(1, k + 1)) + list(range(-m, 0)) + [None] * u
    rnd.shuffle(poss)
    specs = []
    for i in range(n):
        nm = "f" + "abcdefghijkl"[i]
        kind = rnd.choice(["str", "str", "flag", "int"])
        flag = "-" + nm[1]
        s = dict(kind=kind, argstr=flag if kind != "str" else rnd.choice([flag, "", "--" + nm]))
        s.update(name=nm, position=poss[i])
        specs.append(s)
    return specs


def gen_xref_specs(rnd, nfields):
    """as gen_specs (compact), with one list-valued field and a later string field whose template also names the first element
    of that list ({other[0]})"""
    while True:
        specs = gen_specs(rnd, nfields, compact=True)
        i = rnd.randrange(0, nfields - 1)
        j = rnd.randrange(i + 1, nfields)
        nm, ref = specs[j]["name"], specs[i]["name"]
        flag = "-" + ref[1]
        specs[i].update(rnd.choice([dict(kind="multi", argstr=flag), dict(kind="list", argstr=flag, sep=" "), dict(kind="list", argstr=flag, sep=","),
                                    dict(kind="list", argstr=flag + "...", sep=" ")]))
        if specs[i]["kind"] != "list":
            specs[i].pop("sep", None)
        specs[j].pop("sep", None)
        specs[j].update(kind="str", argstr="--%s={%s}:{%s[0]}" % (nm, nm, ref), xref=ref)
        return specs


def make_task(specs, name="Gen"):
    from pydra.compose import shell
    from pydra.utils.typing import MultiInputObj
    inputs = {}
    for s in specs:
        tp = {"flag": bool, "str": ty.Optional[str], "int": ty.Optional[int], "float": ty.Optional[float],
              "list": ty.Optional[list[str]], "multi": ty.Optional[MultiInputObj[str]]}[s["kind"]]
        kw = dict(type=tp, argstr=s["argstr"], position=s["position"])
        if s["kind"] == "flag":
            kw["default"] = False
        else:
            kw["default"] = None
        if s["kind"] == "list":
            kw["sep"] = s["sep"]
        inputs[s["name"]] = shell.arg(**kw)
    return shell.define("prog", inputs=inputs, name=name)


POOL = ["a", "b7", "x.y", "/p/q", "a_b", "Z-1"]


def annotation(s):
    return {"flag": "bool", "str": "int", "int": "Optional[int]", "float": "int", "list": "List[int]", "multi": "List[int]"}[s["kind"]]


def to_value(s, raw):
    """map the symbolic raw parameter to a field value: strings are drawn from POOL by index (-1 = None)"""
    k = s["kind"]
    if k == "flag":
        return raw
    if k == "str":
        return None if raw < 0 else POOL[raw]
    if k == "int":
        return raw
    if k == "float":
        return None if raw < 0 else [0.5, 1.25, 2.0, 10.0][raw]
    return [POOL[i] for i in raw]


def precondition(s, var):
    k = s["kind"]
    if k == "str":
        return f"-1 <= {var} < {len(POOL)}"
    if k == "float":
        return f"-1 <= {var} < 4"
    if k == "int":
        return "True"
    if k in ("list", "multi"):
        return f"len({var}) <= 3 and all(0 <= i < {len(POOL)} for i in {var})"
    return "True"
