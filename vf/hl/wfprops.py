"""C03: workflow shapes with their nested-loop reference evaluation."""
import vf.engine as E
import vf.rec as R
import vf.t as T
from vf.hl import engdefs as D

E.install_all()


def node(x, tag):
    return x + tag


def pair(x, y, tag):
    return 100 * x + y


# name -> (constructor(xs, ys), reference(xs, ys) -> (outputs, expected job inputs per node-kind))
def _w1(xs, ys):
    a = [node(x, 1) for x in xs]
    b = [node(v, 2) for v in a]
    return b, [("Node", x, 1) for x in xs] + [("Node", v, 2) for v in a]


def _w2(xs, ys):
    a = [node(x, 1) for x in xs]
    b = [node(y, 2) for y in ys]
    out = [pair(u, v, 3) for u in a for v in b]
    return out, [("Node", x, 1) for x in xs] + [("Node", y, 2) for y in ys] + [("Pair", u, v, 3) for u in a for v in b]


def _w3(xs, ys):
    a = [node(x, 1) for x in xs]
    b = [node(v, 2) for v in a]
    c = [node(v, 3) for v in a]
    out = [pair(u, v, 4) for u, v in zip(b, c)]
    return out, [("Node", x, 1) for x in xs] + [("Node", v, 2) for v in a] + [("Node", v, 3) for v in a] + [("Pair", u, v, 4) for u, v in zip(b, c)]


def _w4(xs, ys):
    a = [node(x, 1) for x in xs]
    b = [node(v, 2) for v in a]
    return sum(b), [("Node", x, 1) for x in xs] + [("Node", v, 2) for v in a] + [("Total", tuple(b), 3)]


def _w5(xs, ys):
    a = [node(x, 1) for x in xs]
    out = [pair(u, y, 2) for u in a for y in ys]
    return out, [("Node", x, 1) for x in xs] + [("Pair", u, y, 2) for u in a for y in ys]


def _w7(xs, ys):
    a = [node(x, 1) for x in xs]
    b = [node(v, 2) for v in a]
    c = [node(v, 3) for v in b]
    return c, [("Node", x, 1) for x in xs] + [("Node", v, 2) for v in a] + [("Node", v, 3) for v in b]


def _w8(xs, ys):
    n = len(xs)
    lst = [10 * n + i for i in range(n)]
    return [node(v, 2) for v in lst], [("ListOut", n, 1)] + [("Node", v, 2) for v in lst]


def _w9(xs, ys):
    a = [node(x, 1) for x in xs]
    return [pair(v, v, 2) for v in a], [("Node", x, 1) for x in xs] + [("Pair", v, v, 2) for v in a]


def _w10(xs, ys):
    a = [node(x, 1) for x in xs]
    b = [node(y, 2) for y in ys]
    out = [[pair(u, v, 3) for v in b] for u in a]
    return out, [("Node", x, 1) for x in xs] + [("Node", y, 2) for y in ys] + [("Pair", u, v, 3) for u in a for v in b]


def _w11(xs, ys):
    if len(xs) != len(ys):
        return "reject", []
    a = [pair(x, y, 1) for x, y in zip(xs, ys)]
    return [node(v, 2) for v in a], [("Pair", x, y, 1) for x, y in zip(xs, ys)] + [("Node", v, 2) for v in a]


def _w12(xs, ys):
    a = [node(x, 1) for x in xs]
    b = [node(v, 2) for v in a]
    out = [pair(u, v, 3) for u, v in zip(a, b)]
    return out, [("Node", x, 1) for x in xs] + [("Node", v, 2) for v in a] + [("Pair", u, v, 3) for u, v in zip(a, b)]


def _w13(xs, ys):
    a = [node(x, 1) for x in xs]
    c = [node(y, 2) for y in ys]
    b = [[pair(u, w, 3) for w in c] for u in a]
    out = [pair(b[i][j], a[i], 4) for i in range(len(a)) for j in range(len(c))]
    jobs = [("Node", x, 1) for x in xs] + [("Node", y, 2) for y in ys] + [("Pair", u, w, 3) for u in a for w in c] + \
        [("Pair", b[i][j], a[i], 4) for i in range(len(a)) for j in range(len(c))]
    return out, jobs


SHAPES = {
    "W1": (lambda xs, ys: D.W1(xs=xs), _w1), "W2": (lambda xs, ys: D.W2(xs=xs, ys=ys), _w2),
    "W3": (lambda xs, ys: D.W3(xs=xs), _w3), "W4": (lambda xs, ys: D.W4(xs=xs), _w4),
    "W5": (lambda xs, ys: D.W5(xs=xs, ys=ys), _w5), "W5kw": (lambda xs, ys: D.W5kw(xs=xs, ys=ys), _w5),
    "W7": (lambda xs, ys: D.W7(xs=xs), _w7), "W8": (lambda xs, ys: D.W8(n=len(xs)), _w8),
    "W9": (lambda xs, ys: D.W9(xs=xs), _w9), "W10": (lambda xs, ys: D.W10(xs=xs, ys=ys), _w10),
    "W11": (lambda xs, ys: D.W11(xs=xs, ys=ys), _w11),
    "W12": (lambda xs, ys: D.W12(xs=xs), _w12), "W13": (lambda xs, ys: D.W13(xs=xs, ys=ys), _w13),
}


def c03(shape, nx, ny, dup):
    xs = [5, 6, 7][:nx]
    ys = [1, 2, 3][:ny]
    if dup and nx >= 2:
        xs[-1] = xs[0]
    mk, ref = SHAPES[shape]
    if shape in ("W4", "W7", "W10") and (not xs or (shape == "W10" and not ys)):
        T.reach()
        return None          # combiners are quantified over non-empty splits (as in C02)
    want, jobs = ref(xs, ys)
    E.reset()
    R.clear()
    d = E.scratch()
    got = err = None
    try:
        try:
            got = mk(xs, ys)(cache_root=d, worker="debug").out
        except Exception as e:
            err = e
    finally:
        E.cleanup(d)
    T.reach()
    log = [ev if ev[0] != "Total" else ("Total", tuple(ev[1]), ev[2]) for ev in R.LOG]
    desc = "%s xs=%r ys=%r" % (shape, xs, ys)
    if want == "reject":
        if err is None:
            return "%s: inner split of different lengths accepted: %r" % (desc, got)
        return None if not log else "%s: rejected only after jobs ran" % desc
    if err is not None:
        from pydra.engine.state import PydraStateError
        if isinstance(err, PydraStateError):
            return None             # "not supported" is allowed; a wrong answer is not
        return "%s: failed with %r" % (desc, err)
    if got != want:
        return "%s: workflow output %r, nested-loop reference %r" % (desc, got, want)
    if sorted(set(log), key=repr) != sorted(set(jobs), key=repr) or len(log) != len(set(jobs)):
        return "%s: job inputs %r, reference jobs %r (each distinct job exactly once)" % (desc, log, jobs)
    return None
