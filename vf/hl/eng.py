"""Engine-level harness helpers on the real file system (see vf/engine.py for the stub contract)."""
import os
import shutil

import vf.engine as E
import vf.rec as R
import vf.t as T

E.install_all()

from vf.hl import engdefs as D  # noqa: E402
import pydra.engine.job as J  # noqa: E402
import pydra.engine.result as RS  # noqa: E402


def bodies(kind=None):
    return [ev for ev in R.LOG if kind is None or ev[0] == kind]


def call(task, **kw):
    """run a task; returns (outputs | None, exception | None)"""
    try:
        return task(worker="debug", **kw), None
    except (Exception, SystemExit, KeyboardInterrupt) as e:       # not BaseException: CrossHair steers paths with its own
        return None, e


def job_dirs(root):
    return sorted(x for x in os.listdir(root) if os.path.isdir(os.path.join(root, x)) and x != "pkl_files")


def load(root, checksum):
    from pathlib import Path
    return RS.load_result(checksum, [Path(root)])


# ------------------------------------------------------------------ C13
def c13(mode, x, again):
    """first submission with failure/return `mode`; optionally a second one of the same task"""
    E.reset()
    R.clear()
    d = E.scratch()
    try:
        t = D.Two(mode=mode, x=x)
        out1, e1 = call(t, cache_root=d)
        n1 = len(bodies("Two"))
        res = load(d, t._checksum)
        out2 = e2 = None
        if again:
            out2, e2 = call(D.Two(mode=mode, x=x), cache_root=d)
        n2 = len(bodies("Two"))
    finally:
        E.cleanup(d)
    T.reach()
    if mode in D.VALID_MODES:
        want = D.VALID_MODES[mode](x)
        if e1 is not None or (out1.a, out1.b) != want:
            return "valid return (mode %d) reported as %r / %r" % (mode, e1, out1)
        if again and (e2 is not None or (out2.a, out2.b) != want or n2 != 1):
            return "second submission of a successful task: %r, bodies %d" % (e2 or out2, n2)
        return None
    if mode == 1:
        return None                      # `return None` with declared outputs: listed, not judged
    # failure modes
    if e1 is None:
        return "mode %d (%s): submission succeeded with outputs %r" % (mode, "raise" if mode in (0, 12, 13, 14) else "return value lacks declared outputs", out1)
    if mode == 0 and "boom-%d" % x not in (str(e1) + "".join(getattr(e1, "__notes__", []))):
        return "failure reported without the recorded error: %r" % (e1,)
    if res is not None and not res.errored:
        return "failed job (mode %d) stored a result that is not flagged errored" % mode
    if again:
        if e2 is None:
            return "second submission of a failed task succeeded: %r" % (out2,)
        if n2 != 2 * n1 or n1 != 1:
            return "failed task: bodies executed %d then %d (a later submission must execute it again)" % (n1, n2)
    return None


def c11_node_hits_in_readonly_cache(relative, x=1):
    """the nodes of FlakyWf(x) have complete results in a read-only cache (produced by running them as single tasks); the
    workflow submitted with that cache listed - as an absolute or as a relative path - must not execute them again"""
    from pydra.engine.submitter import Submitter
    E.reset()
    R.clear()
    R.FLAGS["fail"] = False
    d, ro = E.scratch(), E.scratch()
    cwd = os.getcwd()
    try:
        with Submitter(cache_root=ro, worker="debug") as sub:
            sub(D.Flaky(x=x, tag=1))
            sub(D.Flaky(x=x * 10 + 1, tag=2))
        n1 = len(bodies("Flaky"))
        before = sorted(os.listdir(ro))
        os.chdir(os.path.dirname(ro))
        loc = os.path.basename(ro) if relative else ro
        try:
            with Submitter(cache_root=d, worker="debug", readonly_caches=[loc]) as sub:
                res = sub(D.FlakyWf(x=x), raise_errors=False)
        finally:
            os.chdir(cwd)
        n2 = len(bodies("Flaky")) - n1
        after = sorted(os.listdir(ro))
        out = None if res.errored else res.outputs.out
    finally:
        os.chdir(cwd)
        E.cleanup(d)
        E.cleanup(ro)
    T.reach()
    desc = "workflow whose node results are in the read-only cache %r" % (loc,)
    if out != (x * 10 + 1) * 10 + 2:
        return "%s: output %r" % (desc, out)
    if n2 != 0:
        return "%s: %d node bodies executed again" % (desc, n2)
    if before != after:
        return "%s: the read-only cache was modified: %s -> %s" % (desc, before, after)
    return None


def split_resubmission(n, k, mode):
    """FlakySplit over n elements, submitted twice to one cache root with max_concurrent k (None = unlimited) on the sequential
    worker.  mode 'rerun': second submission with rerun=True must execute every job again (C11).  mode 'stale_error': the last
    element fails in the first submission only; the second submission must execute exactly that element again and succeed (C13)."""
    from pydra.engine.submitter import Submitter
    E.reset()
    R.clear()
    d = E.scratch()
    kw = {} if k is None else {"max_concurrent": k}
    xs = list(range(1, n + 1))
    res2 = err2 = None
    try:
        if mode == "stale_error":
            R.FLAGS["fail_x"] = n
        try:
            with Submitter(cache_root=d, worker="debug", **kw) as sub:
                sub(D.FlakySplit(xs=xs), raise_errors=False)
        finally:
            R.FLAGS.pop("fail_x", None)
        first = [b[1] for b in bodies("Flaky")]
        try:
            with Submitter(cache_root=d, worker="debug", **kw) as sub:
                res2 = sub(D.FlakySplit(xs=xs), raise_errors=False, rerun=(mode == "rerun"))
        except Exception as e:
            err2 = e
        second = [b[1] for b in bodies("Flaky")][len(first):]
    finally:
        R.FLAGS.pop("fail_x", None)
        E.cleanup(d)
    T.reach()
    desc = "split over %s, max_concurrent %s" % (xs, k)
    if sorted(first) != xs:
        return "%s: first submission executed %s" % (desc, first)
    if mode == "rerun":
        if sorted(second) != xs:
            return "%s: rerun=True executed %s, every job has to be executed again" % (desc, sorted(second))
        return None
    if err2 is not None or res2 is None or res2.errored:
        return "%s: element %d failed in the first submission only; the second submission executed %s and reports failure (%r)" % (desc, n, second, err2)
    if second != [n]:
        return "%s: second submission executed %s, expected exactly the element that had failed (%d)" % (desc, second, n)
    if list(res2.outputs.out) != [x * 10 + 1 for x in xs]:
        return "%s: outputs %r" % (desc, res2.outputs.out)
    return None


# ------------------------------------------------------------------ C11
ENTRY_STATES = ["absent", "empty_dir", "job_record_only", "zero_byte_result", "partial_result", "errored_result", "complete_result",
                "two_byte_result", "all_but_last_byte_result"]
_TEMPLATES = {}


def _templates(x):
    """complete and errored cache entries of Flaky(x), produced once per process by real runs"""
    if x in _TEMPLATES:
        return _TEMPLATES[x]
    from crosshair.tracers import NoTracing
    with NoTracing():
        base = os.path.join(E._BASE, "templates_%d" % x)
        shutil.rmtree(base, ignore_errors=True)
        os.makedirs(base + "/ok")
        os.makedirs(base + "/err")
        t = D.Flaky(x=x, tag=3)
        R.FLAGS["fail"] = False
        t(cache_root=base + "/ok", worker="debug")
        R.FLAGS["fail"] = True
        try:
            D.Flaky(x=x, tag=3)(cache_root=base + "/err", worker="debug")
        except Exception:
            pass
        R.FLAGS["fail"] = False
        cs = t._checksum
        _TEMPLATES[x] = (cs, os.path.join(base, "ok", cs), os.path.join(base, "err", cs))
    return _TEMPLATES[x]


def make_entry(root, state, x):
    """put the cache entry for Flaky(x, tag=3) in `root` into the given pre-state"""
    cs, ok, err = _templates(x)
    dst = os.path.join(root, cs)
    name = ENTRY_STATES[state]
    if name == "absent":
        return
    if name == "empty_dir":
        os.makedirs(dst)
    elif name == "job_record_only":
        os.makedirs(dst)
        shutil.copy(os.path.join(ok, "_job.pklz"), dst)
    elif name in ("zero_byte_result", "partial_result", "two_byte_result", "all_but_last_byte_result"):
        shutil.copytree(ok, dst)
        data = open(os.path.join(ok, "_result.pklz"), "rb").read()
        keep = {"zero_byte_result": 0, "partial_result": len(data) // 2, "two_byte_result": 2, "all_but_last_byte_result": len(data) - 1}[name]
        with open(os.path.join(dst, "_result.pklz"), "wb") as f:
            f.write(data[:keep])
    elif name == "errored_result":
        shutil.copytree(err, dst)
    elif name == "complete_result":
        shutil.copytree(ok, dst)


def tree_digest(root):
    out = []
    for dp, dn, fn in os.walk(root):
        for f in sorted(fn):
            p = os.path.join(dp, f)
            st = os.stat(p)
            out.append((os.path.relpath(p, root), st.st_size, st.st_mtime_ns))
        dn.sort()
    return out


def c11(states, n_ro, rerun, x):
    """one submission of Flaky(x) from an arbitrary pre-state of cache_root + n_ro read-only caches"""
    E.reset()
    _templates(x)
    R.clear()
    R.FLAGS["fail"] = False
    from crosshair.tracers import NoTracing
    base = E.scratch()
    roots = [os.path.join(base, n) for n in ("root", "ro1", "ro2")][: 1 + n_ro]
    try:
        with NoTracing():
            for r, s in zip(roots, states):
                os.makedirs(r)
                make_entry(r, s, x)
            before = [tree_digest(r) for r in roots[1:]]
            others = set(os.listdir(base))
        t = D.Flaky(x=x, tag=3)
        out, err = call(t, cache_root=roots[0], readonly_caches=roots[1:], rerun=rerun)
        n = len(bodies("Flaky"))
        with NoTracing():
            after = [tree_digest(r) for r in roots[1:]]
            new_outside = set(os.listdir(base)) - others
            res_root = load(roots[0], t._checksum)
    finally:
        E.cleanup(base)
    T.reach()
    names = [ENTRY_STATES[s] for s in states[: 1 + n_ro]]
    desc = "pre-state %s rerun=%s" % (dict(zip(["cache_root", "ro1", "ro2"], names)), rerun)
    if err is not None:
        return "%s: submission failed: %r" % (desc, err)
    if out.out != x * 10 + 3:
        return "%s: returned %r instead of %r" % (desc, out.out, x * 10 + 3)
    complete_any = "complete_result" in names
    want = 1 if (rerun or not complete_any) else 0
    if n != want:
        return "%s: task body executed %d time(s), expected %d" % (desc, n, want)
    if before != after:
        return "%s: a read-only cache was modified" % desc
    if new_outside:
        return "%s: files written outside the cache root: %s" % (desc, sorted(new_outside))
    if n == 1 and (res_root is None or res_root.errored):
        return "%s: after executing, the cache root holds no complete result" % desc
    return None


def c11_history(reruns, propagate, fail_first):
    """explicit history of three submissions of a two-node workflow into one cache root"""
    E.reset()
    R.clear()
    d = E.scratch()
    counts, outs = [], []
    try:
        from pydra.engine.submitter import Submitter
        for k, rr in enumerate(reruns):
            R.FLAGS["fail"] = bool(fail_first and k == 0)
            before = len(bodies("Flaky"))
            try:
                with Submitter(cache_root=d, worker="debug", propagate_rerun=propagate) as sub:
                    res = sub(D.FlakyWf(x=1), rerun=rr)
                outs.append(None if res.errored else res.outputs.out)
            except Exception as e:
                outs.append(e)
            counts.append(len(bodies("Flaky")) - before)
    finally:
        R.FLAGS["fail"] = False
        E.cleanup(d)
    T.reach()
    done = False        # a successful result of the whole workflow is cached
    for k, rr in enumerate(reruns):
        failing = bool(fail_first and k == 0)
        if failing:
            want = 1                         # node a fails, b never runs
        elif not done:
            want = 2
        elif rr and propagate:
            want = 2
        else:
            want = 0                          # rerun without propagation re-executes only the workflow itself
        if counts[k] != want:
            return "history reruns=%s propagate=%s fail_first=%s: submission %d executed %d node bodies, expected %d (all: %s)" % (
                reruns, propagate, fail_first, k, counts[k], want, counts)
        if not failing:
            if outs[k] != 112:
                return "submission %d returned %r" % (k, outs[k])
            done = True
    return None


def c11_nested_rerun(use_async, propagate, x=1):
    """a workflow with nested workflow nodes, run, then run again with rerun=True: with propagation every body is executed again;
    without it no body is, and no job other than the submitted workflow itself is executed again (its stored result is untouched)"""
    from pydra.engine.submitter import Submitter
    from vf.hl import sched as S
    E.reset()
    R.clear()
    d = E.scratch()

    def submit(rerun):
        if use_async:
            S.reset(())
            S.STATE["all_complete"] = True
            sub = S.submitter(d, None, propagate_rerun=propagate)
            return sub(D.Nested(x=x), raise_errors=True, rerun=rerun)
        with Submitter(cache_root=d, worker="debug", propagate_rerun=propagate) as sub:
            return sub(D.Nested(x=x), raise_errors=True, rerun=rerun)

    def stored():
        out = {}
        for jd in job_dirs(d):
            p = os.path.join(d, jd, "_result.pklz")
            if os.path.exists(p):
                st = os.stat(p)
                out[jd] = (st.st_ino, st.st_mtime_ns, st.st_size)
        return out

    err = None
    try:
        try:
            submit(False)
            n1 = len(bodies("Node")) + len(bodies("Join"))
            before = stored()
            import time as _t
            _t.sleep(0.02)
            submit(True)
            n2 = len(bodies("Node")) + len(bodies("Join")) - n1
            after = stored()
        except Exception as e:
            err = e
    finally:
        E.cleanup(d)
    T.reach()
    desc = "nested workflows, %s loop, rerun=True with propagate_rerun=%s" % ("async" if use_async else "sync", propagate)
    if err is not None:
        return "%s: %r" % (desc, err)
    if n1 != 10:
        return "%s: first submission executed %d bodies, expected 10" % (desc, n1)
    if n2 != (10 if propagate else 0):
        return "%s: second submission executed %d bodies, expected %d" % (desc, n2, 10 if propagate else 0)
    if not propagate:
        changed = sorted(k for k in after if after[k] != before.get(k))
        if len(changed) > 1:
            return "%s: the stored results of %s were rewritten (only the submitted workflow itself is executed again)" % (desc, changed)
    return None


# ------------------------------------------------------------------ C35
class Fault(Exception):
    """ordinary exception injected by the harness"""


SITES = ["none", "hook_pre_run", "hook_pre_run_task", "hook_post_run_task", "hook_post_run", "save_job_record",
         "save_result", "record_error", "start_audit", "outputs_from_job", "body_changes_cwd", "audit_end_record_fails"]


def c35(site, body_fails, pre_exists, x):
    """one Job run with an exception injected at `site`; returns error text or None"""
    from pydra.engine.hooks import TaskHooks
    from pydra.engine.submitter import Submitter
    from pydra.engine.audit import Audit
    E.reset()
    R.clear()
    name = SITES[site]
    calls = {"pre_run": 0, "pre_run_task": 0, "post_run_task": 0, "post_run": 0, "save": 0}

    def hook(nm):
        def f(*a, **k):
            calls[nm] += 1
            if name == "hook_" + nm:
                raise Fault(nm)
        return f

    hooks = TaskHooks(pre_run=hook("pre_run"), pre_run_task=hook("pre_run_task"), post_run_task=hook("post_run_task"), post_run=hook("post_run"))
    real_save, real_rec, real_start = J.save, J.record_error, Audit.start_audit
    from pydra.compose.python import PythonOutputs
    real_from = PythonOutputs._from_job.__func__

    def save(*a, **k):
        calls["save"] += 1
        is_result = k.get("result") is not None
        if (name == "save_job_record" and not is_result) or (name == "save_result" and is_result):
            raise Fault(name)
        return real_save(*a, **k)

    reached = {"n": 0}

    def rec(*a, **k):
        if name == "record_error":
            reached["n"] += 1
            raise Fault(name)
        return real_rec(*a, **k)

    def start(self, odir):
        real_start(self, odir)
        if name == "start_audit":
            raise Fault(name)

    def from_job(cls, job):
        if name == "outputs_from_job":
            raise Fault(name)
        return real_from(cls, job)

    d = E.scratch()
    elsewhere = E.scratch()
    cwd0 = os.getcwd()
    R.FLAGS["fail"] = False
    raised = None
    try:
        t = D.Flaky(x=x, tag=5)
        if pre_exists:
            t(cache_root=d, worker="debug")
            R.clear()
        R.FLAGS["fail"] = bool(body_fails)
        if name == "body_changes_cwd":
            R.FLAGS["chdir"] = elsewhere
        sub_kw = {}
        if name == "audit_end_record_fails":
            from pydra.utils.messenger import AuditFlag
            R.FLAGS["messenger_fails_on_end"] = True
            sub_kw = dict(audit_flags=AuditFlag.PROV, messengers=[D.ListMessenger()])
        J.save, J.record_error, Audit.start_audit = save, rec, start
        PythonOutputs._from_job = classmethod(from_job)
        try:
            with Submitter(cache_root=d, worker="debug", **sub_kw) as sub:
                sub(D.Flaky(x=x, tag=5), hooks=hooks)
        except Exception as e:
            raised = e
        finally:
            J.save, J.record_error, Audit.start_audit = real_save, real_rec, real_start
            PythonOutputs._from_job = classmethod(real_from)
            R.FLAGS["fail"] = False
            R.FLAGS.pop("chdir", None)
            R.FLAGS.pop("messenger_fails_on_end", None)
        cwd1 = os.getcwd()
        os.chdir(cwd0)
        left = sorted(f for f in os.listdir(d) if f.endswith("_info.json"))
        locks = sorted(f for f in os.listdir(d) if f.endswith(".lock"))
        jd = os.path.join(d, t._checksum)
        has_job = os.path.exists(os.path.join(jd, "_job.pklz"))
        has_res = os.path.exists(os.path.join(jd, "_result.pklz"))
    finally:
        os.chdir(cwd0)
        E.cleanup(d)
        E.cleanup(elsewhere)
    T.reach()
    n_body = len(bodies("Flaky"))
    desc = "fault at %s, body_fails=%s, result pre-exists=%s" % (name, body_fails, pre_exists)
    if cwd1 != cwd0:
        return "%s: working directory left at %s" % (desc, cwd1)
    if left:
        return "%s: bookkeeping file(s) left in the cache root: %s" % (desc, left)
    if locks:
        return "%s: lock file(s) left: %s" % (desc, locks)
    if pre_exists and name in ("none", "hook_post_run"):
        if n_body or calls["pre_run_task"] or calls["post_run_task"]:
            return "%s: cache hit but body=%d pre_run_task=%d post_run_task=%d" % (desc, n_body, calls["pre_run_task"], calls["post_run_task"])
    if n_body:
        if calls["pre_run_task"] != n_body or calls["post_run_task"] != n_body:
            return "%s: body executed %d time(s) but pre_run_task=%d post_run_task=%d" % (desc, n_body, calls["pre_run_task"], calls["post_run_task"])
        if name not in ("save_job_record", "save_result") and not (has_job and has_res):
            return "%s: body executed but job directory holds record=%s result=%s" % (desc, has_job, has_res)
    else:
        if calls["post_run_task"] > calls["pre_run_task"]:
            return "%s: post_run_task called without a start" % desc
    if name in ("none", "body_changes_cwd") and not body_fails and raised is not None:
        return "%s: raised %r" % (desc, raised)
    site_reached = name not in ("record_error",) or reached["n"] > 0
    if site_reached and not pre_exists and raised is None and name not in ("none", "body_changes_cwd"):
        return "%s: exception swallowed, submission reported success" % desc
    return None


# ------------------------------------------------------------------ C12
class Crash(BaseException):
    """process death: not an Exception, so pydra's own handlers do not see it (as they would not see SIGKILL)"""


def c12_stale_lock(workflow, content_kind, use_async, x=1):
    """a lock file left by a process that died while holding the job's lock (content: 0 empty, 1 pid of a dead process +
    host name, 2 garbage); the resubmission must end with the right result instead of waiting for ever"""
    import socket
    from pydra.engine.submitter import Submitter
    from pydra.engine.job import Job
    from vf.hl import sched as S
    E.reset()
    R.clear()
    R.FLAGS["fail"] = False
    d = E.scratch()
    res = err = None
    try:
        task = D.FlakyWf(x=x) if workflow else D.Flaky(x=x, tag=4)
        with Submitter(cache_root=d, worker="debug") as sub:
            lockfile = Job(task, submitter=sub, name="main").lockfile
        with open(lockfile, "w") as f:
            f.write(["", "%d\n%s\n" % (2 ** 22 - 3, socket.gethostname()), "garbage"][content_kind])
        import time as _time
        old = _time.time() - 3600          # the process died an hour ago (filelock breaks malformed locks only after an age threshold)
        os.utime(lockfile, (old, old))
        import contextlib
        from crosshair.tracers import NoTracing
        # filelock decides whether a lock is stale from os.getpid()/time.time()/st_mtime, which CrossHair makes symbolic (and
        # then finds the run non-deterministic): the resubmission (all inputs realised) executes outside the tracer
        with (NoTracing() if T.tracing() else contextlib.nullcontext()):
            try:
                with E.deadline(40):
                    if use_async:
                        S.install()
                        S.reset(())
                        out, err, ev = S.run_async(task, d, ())
                        res = out.outputs.out if out is not None and err is None else None
                    else:
                        out, err = call(task, cache_root=d)
                        res = out.out if out is not None else None
            except E.HangDetected as e:
                err = S.BudgetExceeded(str(e))
        if S.STATE.get("budget_hit") and use_async and not isinstance(err, S.BudgetExceeded):
            err = S.BudgetExceeded(S.STATE["budget_hit"])
    finally:
        E.cleanup(d)
    T.reach()
    want = ((x * 10 + 1) * 10 + 2) if workflow else x * 10 + 4
    desc = "%s with a stale lock file (%s), %s loop" % ("workflow" if workflow else "task", ["empty", "dead pid", "garbage"][content_kind], "async" if use_async else "sync")
    if err is not None:
        return "%s: %r" % (desc, err)
    if res != want:
        return "%s: output %r, expected %r" % (desc, res, want)
    return None


def c12(event, phase, workflow, body_fails_later, x, cut=2, journal=False):
    """kill the 'process' at the event-th persistence event (phase: 0 before, 1 mid-write, 2 after),
    snapshot the cache root as it is at that instant, resubmit against the snapshot"""
    from crosshair.tracers import NoTracing
    from pydra.engine.submitter import Submitter
    E.reset()
    R.clear()
    R.FLAGS["fail"] = False
    d = E.scratch()
    snap = d + "_snap"
    counter = {"n": 0, "crashed": False}
    real_save, real_rec = J.save, J.record_error
    real_dump = RS.cp.dump

    def die():
        counter["crashed"] = True
        with NoTracing():
            shutil.copytree(d, snap)
        raise Crash()

    def tick():
        counter["n"] += 1
        return (not counter["crashed"]) and counter["n"] == event

    def save(*a, **k):
        hit = tick()
        if hit and phase == 0:
            die()
        if hit and phase == 1:
            state = {"first": True}

            def dump(obj, fp):
                if state["first"]:
                    state["first"] = False
                    import cloudpickle
                    with NoTracing():
                        data = cloudpickle.dumps(T.real(obj))
                        n = [2, len(data) // 4, len(data) // 2, len(data) - 1][cut]       # how much of the file reached the disk
                        fp.write(data[:n])
                        fp.flush()
                    die()
                return real_dump(obj, fp)
            RS.cp.dump = dump
            try:
                return real_save(*a, **k)
            finally:
                RS.cp.dump = real_dump
        out = real_save(*a, **k)
        if hit:
            die()
        return out

    def body_event():
        if tick():
            die()

    R.FLAGS["on_body"] = body_event
    task = (lambda: D.FlakyWf(x=x)) if workflow else ((lambda: D.Journal(x=x, tag=3)) if journal else (lambda: D.Flaky(x=x, tag=3)))
    want = (x * 10 + 1) * 10 + 2 if workflow else (1 if journal else x * 10 + 3)
    J.save = save
    crashed = False
    try:
        try:
            with Submitter(cache_root=d, worker="debug") as sub:
                sub(task())
        except Crash:
            crashed = True
        except Exception:
            pass
    finally:
        J.save = real_save
        RS.cp.dump = real_dump
        R.FLAGS.pop("on_body", None)
    first_bodies = len(bodies("Flaky"))
    try:
        if not crashed:
            T.reach()
            return None                    # fewer events than `event`: nothing to check on this path
        with NoTracing():
            for root, _, files in os.walk(snap):
                for f in files:
                    if f.endswith(".lock"):
                        os.unlink(os.path.join(root, f))       # assumption: stale locks are broken by the lock library
        R.FLAGS["fail"] = bool(body_fails_later)
        out = err = None
        try:
            with Submitter(cache_root=snap, worker="debug") as sub:
                res = sub(task())
            out = None if res.errored else res.outputs.out
            if res.errored:
                err = "errored result"
        except Exception as e:
            err = e
        second = len(bodies("Flaky")) - first_bodies
    finally:
        R.FLAGS["fail"] = False
        E.cleanup(d)
        E.cleanup(snap)
    T.reach()
    desc = "crash at persistence event %d phase %s%s (%s)" % (event, ["before", "mid-write", "after"][phase],
                                                                " cut %d" % cut if phase == 1 else "", "workflow" if workflow else ("journal task" if journal else "task"))
    if body_fails_later:
        if err is None and second > 0:
            return "%s: resubmission with a failing body reported success %r" % (desc, out)
        return None
    if err is not None:
        return "%s: resubmission failed: %r" % (desc, err)
    if out != want:
        return "%s: resubmission returned %r, the correct result is %r (bodies re-executed: %d)" % (desc, out, want, second)
    return None


# ------------------------------------------------------------------ C19
def c19(kind, val, base, debug_log=False):
    """body mutates its input in place; changed => error reported, unchanged => no error; identity = inputs as submitted.
    debug_log: the 'pydra' logger is at DEBUG level (what pydra's own messages recommend for tracking hash changes)"""
    import copy
    import logging
    E.reset()
    R.clear()
    other0 = None
    if kind == 8:
        data0, other0 = [1, base], [1, base, val]
    elif kind == 9:
        data0, other0 = {"k": base}, {"k": val}
    elif kind == 10:
        import numpy as np
        data0 = np.arange([4, 20000, 16384 + 5][base % 3])
    elif kind == 11:
        data0 = ([1, base], [3])
    elif kind == 12:
        data0 = frozenset([D.Box(base)])
    elif kind == 13:
        data0 = [1, (2, {"k": base})][1]
    else:
        data0 = {0: [base, 2], 1: [base, 2], 2: {"k": base}, 3: {base, 2}, 4: D.Box(base), 5: [base, 2], 6: [base, 2], 7: [2, base]}[kind]
    snap = (lambda v: copy.deepcopy(next(iter(v)).v)) if kind == 12 else (lambda v: copy.deepcopy(v.v if kind == 4 else v))
    before = snap(data0)
    before_other = copy.deepcopy(other0)
    d = E.scratch()
    lg = logging.getLogger("pydra")
    level = lg.level
    try:
        if debug_log:
            lg.setLevel(logging.DEBUG)
        import contextlib
        from crosshair.tracers import NoTracing
        # log records carry time.time(), which CrossHair makes symbolic: most traced paths would end inside the logging
        # module, so the DEBUG-level runs (inputs already realised) execute outside the tracer
        with (NoTracing() if debug_log and T.tracing() else contextlib.nullcontext()):
            t = D.Mutator(data=data0, kind=kind, val=val, other=other0)
            cs = t._checksum
            out, err = call(t, cache_root=d)
            dirs = job_dirs(d)
    finally:
        lg.setLevel(level)
        E.cleanup(d)
    T.reach()
    after = snap(data0)
    if kind == 10:
        changed = bool((after != before).any())
    else:
        changed = after != before or other0 != before_other
    desc = "mutation kind %d val %d on %r%s" % (kind, val, before, " (pydra logger at DEBUG)" if debug_log else "")
    if changed and err is None:
        return "%s: the input was changed to %r during execution and no error was reported" % (desc, after)
    if not changed and err is not None:
        return "%s: input unchanged but the call failed: %r" % (desc, err)
    if cs not in dirs:
        return "%s: result stored under %s, the identity of the submitted inputs is %s" % (desc, dirs, cs)
    return None


# ------------------------------------------------------------------ C30
def _sig(wf):
    from pydra.utils.typing import is_lazy
    from pydra.utils.general import attrs_values

    win = attrs_values(wf.inputs)

    def v(x):
        if is_lazy(x):
            if type(x).__name__ == "LazyInField" and not is_lazy(win.get(x._field)):
                # a reference to a workflow input that has a value resolves to that value at run time
                return ("val", win.get(x._field))
            return ("lazy", type(x).__name__, getattr(x, "_field", None), getattr(getattr(x, "_node", None), "name", None))
        return ("val", x)
    nodes = [(n.name, sorted((k, v(val)) for k, val in attrs_values(n._task).items() if k != "function")) for n in wf.nodes]
    inputs = sorted((k, v(val)) for k, val in attrs_values(wf.inputs).items() if k != "constructor")
    return (nodes, inputs)


LAZY_SETS = [(), ("a",), ("b",), ("a", "b")]


def c30(ops):
    """ops: list of (kind 0-3 construct with LAZY_SETS[kind] / 4 run / 5, 6 construct, run one shared task object after re-assigning its inputs, a, b). After every operation the result must equal
    that of a fresh construction / run; earlier constructions must not change afterwards."""
    from collections import defaultdict
    from pydra.engine.workflow import Workflow
    E.reset()
    R.clear()
    made = []
    hist = []
    shared = None            # one task object whose inputs are re-assigned (kinds 5 = construct, 6 = run)
    for (kind, a, b) in ops:
        hist.append((kind, a, b))
        if kind in (7, 8):
            # a split task runs through an implicit workflow whose construction is cached as well; 8: container_ndim = 2
            vals = [[a, b], [b, a + 10]]
            t = D.Desc().split(a=vals) if kind == 7 else D.Desc().split(a=vals, container_ndim={"a": 2})
            d = E.scratch()
            try:
                out, err = call(t, cache_root=d)
            finally:
                E.cleanup(d)
            want = [repr(v) for v in vals] if kind == 7 else [repr(x) for v in vals for x in v]
            if err is not None or list(out.out) != want:
                T.reach()
                return "history %s: split of %r with container_ndim %s gave %r / %r, a fresh construction gives %r" % (
                    hist, vals, None if kind == 7 else 2, err, getattr(out, "out", None), want)
            continue
        if kind == 9:
            # a workflow whose construction is invalid for a == 3: every construction has to behave like a fresh one
            def attempt():
                try:
                    return ("ok", _sig(Workflow.construct(D.CWV(a=a, b=b))))
                except Exception as e:
                    return ("raises", type(e).__name__)
            got = attempt()
            saved = Workflow._constructed_cache
            Workflow._constructed_cache = defaultdict(lambda: defaultdict(dict))
            try:
                fresh = attempt()
            finally:
                Workflow._constructed_cache = saved
            if got != fresh:
                T.reach()
                return "history %s: construct(CWV(a=%d, b=%d)) -> %s, a fresh construction -> %s" % (hist, a, b, got, fresh)
            continue
        if kind in (5, 6):
            if shared is None:
                shared = D.CW(a=a, b=b)
            else:
                shared.a, shared.b = a, b
            task = shared
            if kind == 5:
                wf = task.construct()
                saved = Workflow._constructed_cache
                Workflow._constructed_cache = defaultdict(lambda: defaultdict(dict))
                try:
                    fresh = Workflow.construct(D.CW(a=a, b=b))
                finally:
                    Workflow._constructed_cache = saved
                s, f = _sig(wf), _sig(fresh)
                if s != f:
                    T.reach()
                    return "history %s: construct() of a task whose inputs were re-assigned to a=%d, b=%d differs from a fresh construction:\n  got:   %s\n  fresh: %s" % (hist, a, b, s, f)
                continue
            kind = 4
        else:
            task = D.CW(a=a, b=b)
        if kind == 4:
            d = E.scratch()
            try:
                out, err = call(task, cache_root=d)
            finally:
                E.cleanup(d)
            if err is not None or out.out != 100 * (a + 1) + b:
                T.reach()
                return "history %s: run(a=%d, b=%d) gave %r / %r, expected %d" % (hist, a, b, err, out, 100 * (a + 1) + b)
            continue
        lazy = LAZY_SETS[kind]
        wf = Workflow.construct(task, lazy=lazy)
        saved = Workflow._constructed_cache
        Workflow._constructed_cache = defaultdict(lambda: defaultdict(dict))
        try:
            fresh = Workflow.construct(D.CW(a=a, b=b), lazy=lazy)
        finally:
            Workflow._constructed_cache = saved
        s, f = _sig(wf), _sig(fresh)
        if s != f:
            T.reach()
            return "history %s: construct(a=%d, b=%d, lazy=%s) differs from a fresh construction:\\n  cached: %s\\n  fresh:  %s" % (hist, a, b, lazy, s, f)
        made.append((wf, s, (kind, a, b)))
    T.reach()
    for wf, s, op in made:
        if _sig(wf) != s:
            return "history %s: the workflow constructed by %s changed afterwards: %s -> %s" % (hist, op, s, _sig(wf))
    return None


# ------------------------------------------------------------------ C36
def c36(workflow, fail, x, flag_all, file_messenger=False, fault=0):
    """fault: 0 none, 1 Audit.audit_task raises, 2 Audit.monitor raises (both run between the start record and the body)"""
    import json
    import pydra.engine.audit as AU
    from pydra.utils.messenger import AuditFlag, FileMessenger
    from pydra.engine.submitter import Submitter
    E.reset()
    R.clear()
    del R.MSGS[:]
    R.FLAGS["fail"] = bool(fail)
    d = E.scratch()
    res = err = None
    saved = (AU.Audit.audit_task, AU.Audit.monitor)

    def boom(self, *a, **k):
        raise RuntimeError("injected fault in the audit preamble")

    if fault == 1:
        AU.Audit.audit_task = boom
    elif fault == 2:
        AU.Audit.monitor = boom
    per_dir = {}
    try:
        task = D.FlakyWf(x=x) if workflow else D.Flaky(x=x, tag=4)
        import contextlib
        from crosshair.tracers import NoTracing
        # the resource monitor (RESOURCE flag) is a thread sampling psutil against time.time(), which CrossHair replaces by
        # symbolic floats: the ALL-flag runs (all inputs already realised) execute outside the tracer
        with (NoTracing() if flag_all and T.tracing() else contextlib.nullcontext()):
            try:
                with Submitter(cache_root=d, worker="debug", audit_flags=AuditFlag.ALL if flag_all else AuditFlag.PROV,
                               messengers=[FileMessenger() if file_messenger else D.ListMessenger()]) as sub:
                    res = sub(task, raise_errors=False)
            except Exception as e:
                err = e
        results = []
        for jd in job_dirs(d):
            r = load(d, jd)
            if r is not None:
                results.append((jd, bool(r.errored)))
            md = os.path.join(d, jd, "messages")
            if file_messenger:
                per_dir[jd] = []
                for fn in (sorted(os.listdir(md)) if os.path.isdir(md) else []):
                    with open(os.path.join(md, fn)) as fp:
                        per_dir[jd].append(json.load(fp))
    finally:
        AU.Audit.audit_task, AU.Audit.monitor = saved
        R.FLAGS["fail"] = False
        E.cleanup(d)
    T.reach()
    desc = "%s fail=%s%s%s%s" % ("workflow" if workflow else "task", fail, " ALL flags" if flag_all else "", " file messenger" if file_messenger else "",
                               ["", ", audit_task raises", ", monitor raises"][fault])

    def activities(msgs):
        by_id = {}
        for m in msgs:
            if "@id" in m:
                by_id.setdefault(m["@id"], []).append(m)
        # the resource monitor (RESOURCE flag) has start/end records of its own, marked @type monitor / wasStartedBy / wasEndedBy:
        # the property speaks about the job's records
        return {k: v for k, v in by_id.items() if any("startedAtTime" in m or "endedAtTime" in m for m in v)
                and not any(m.get("@type") == "monitor" or "wasStartedBy" in m or "wasEndedBy" in m for m in v)}

    def judge(acts, results, where):
        if len(acts) != len(results):
            return "%s: %d audited activities%s for %d executed jobs (%s)" % (desc, len(acts), where, len(results), results)
        flags = []
        for aid, ms in acts.items():
            starts = [m for m in ms if "startedAtTime" in m]
            ends = [m for m in ms if "endedAtTime" in m]
            if len(starts) != 1 or len(ends) != 1:
                return "%s: activity %s%s has %d start and %d end records" % (desc, aid, where, len(starts), len(ends))
            if "errored" not in ends[0]:
                return "%s: end record of %s carries no error flag" % (desc, aid)
            flags.append(bool(ends[0]["errored"]))
        if sorted(flags) != sorted(e for _, e in results):
            return "%s: end-record error flags %s%s do not match the stored results %s" % (desc, sorted(flags), where, sorted(e for _, e in results))
        return None

    if file_messenger:
        # the default location of a file messenger is the job's own directory: each job's records are looked up there
        for jd, e in results:
            bad = judge(activities(per_dir.get(jd, [])), [(jd, e)], " in %s/messages" % jd[:14])
            if bad:
                return bad
        return None
    return judge(activities(list(R.MSGS)), results, "")


def c13_opt(mode, x, again):
    """python task with an optional output: a returned dict must still provide every mandatory output"""
    E.reset()
    R.clear()
    d = E.scratch()
    try:
        out1, e1 = call(D.TwoOpt(mode=mode, x=x), cache_root=d)
        out2 = e2 = None
        if again:
            out2, e2 = call(D.TwoOpt(mode=mode, x=x), cache_root=d)
        n = len(bodies("TwoOpt"))
    finally:
        E.cleanup(d)
    T.reach()
    valid = mode in (0, 1, 6)
    if valid:
        if e1 is not None or (out1.a, out1.b) != (x, 2):
            return "valid return mode %d: %r / %r" % (mode, e1, out1)
        return None
    if mode == 7:
        return None          # a 2-tuple for three declared outputs: arity rule, not judged here
    if e1 is None:
        return "TwoOpt mode %d: a returned value that lacks a mandatory output was accepted: %r" % (mode, out1)
    if again and (e2 is None or n != 2):
        return "TwoOpt mode %d: second submission %r, bodies %d" % (mode, e2 or out2, n)
    return None


def c13_shell(rc, again):
    """shell task whose process ends with return code rc (the process itself is stubbed)"""
    import types
    import pydra.environments.base as B
    E.reset()
    R.clear()
    runs = []

    class SP:
        PIPE = -1

        @staticmethod
        def run(cmd, stdout=None, stderr=None, **kw):
            runs.append(list(cmd))
            return types.SimpleNamespace(returncode=rc, stdout=b"out", stderr=b"err-text")
    saved = B.sp
    B.sp = SP
    d = E.scratch()
    try:
        out1, e1 = call(D.Sh(v="x"), cache_root=d)
        out2 = e2 = None
        if again:
            out2, e2 = call(D.Sh(v="x"), cache_root=d)
    finally:
        B.sp = saved
        E.cleanup(d)
    T.reach()
    if rc == 0:
        if e1 is not None or (again and (e2 is not None or len(runs) != 1)):
            return "exit code 0: %r / %r, process started %d time(s)" % (e1, e2, len(runs))
        return None
    if e1 is None:
        return "process ended with return code %d but the submission succeeded: %r" % (rc, out1)
    if again and (e2 is None or len(runs) != 2):
        return "return code %d: second submission %r, process started %d time(s) (a failure must not be served from the cache)" % (rc, e2 or out2, len(runs))
    return None
