"""Engine-level harness helpers on the real file system (see vf/engine.py for the stub contract)."""
import os
import shutil

import vf.engine as E
import vf.rec as R
import vf.t as T

E.install_all()

from vf.hl import engdefs as D  # noqa: E402
import pydra.engine.job as J  # noqa: E402
import pydra.engine.result as RS  # noqa: E402


def bodies(kind=None):
    return [ev for ev in R.LOG if kind is None or ev[0] == kind]


def call(task, **kw):
    """run a task; returns (outputs | None, exception | None)"""
    try:
        return task(worker="debug", **kw), None
    except Exception as e:
        return None, e


def job_dirs(root):
    return sorted(x for x in os.listdir(root) if os.path.isdir(os.path.join(root, x)) and x != "pkl_files")


def load(root, checksum):
    from pathlib import Path
    return RS.load_result(checksum, [Path(root)])


# ------------------------------------------------------------------ C13
def c13(mode, x, again):
    """first submission with failure/return `mode`; optionally a second one of the same task"""
    E.reset()
    R.clear()
    d = E.scratch()
    try:
        t = D.Two(mode=mode, x=x)
        out1, e1 = call(t, cache_root=d)
        n1 = len(bodies("Two"))
        res = load(d, t._checksum)
        out2 = e2 = None
        if again:
            out2, e2 = call(D.Two(mode=mode, x=x), cache_root=d)
        n2 = len(bodies("Two"))
    finally:
        E.cleanup(d)
    T.reach()
    if mode in D.VALID_MODES:
        want = D.VALID_MODES[mode](x)
        if e1 is not None or (out1.a, out1.b) != want:
            return "valid return (mode %d) reported as %r / %r" % (mode, e1, out1)
        if again and (e2 is not None or (out2.a, out2.b) != want or n2 != 1):
            return "second submission of a successful task: %r, bodies %d" % (e2 or out2, n2)
        return None
    if mode == 1:
        return None                      # `return None` with declared outputs: listed, not judged
    # failure modes
    if e1 is None:
        return "mode %d (%s): submission succeeded with outputs %r" % (mode, "raise" if mode == 0 else "return value lacks declared outputs", out1)
    if mode == 0 and "boom-%d" % x not in (str(e1) + "".join(getattr(e1, "__notes__", []))):
        return "failure reported without the recorded error: %r" % (e1,)
    if res is not None and not res.errored:
        return "failed job (mode %d) stored a result that is not flagged errored" % mode
    if again:
        if e2 is None:
            return "second submission of a failed task succeeded: %r" % (out2,)
        if n2 != 2 * n1 or n1 != 1:
            return "failed task: bodies executed %d then %d (a later submission must execute it again)" % (n1, n2)
    return None
