"""task definitions for C06/C07 harnesses (module level so that they pickle by reference)"""
import typing as ty
from pydra.compose import python, shell


@python.define
def Any2(a: ty.Any, b: ty.Any = None) -> ty.Any:
    return a


@python.define
def Other2(a: ty.Any, b: ty.Any = None) -> ty.Any:
    return b


Xor = shell.define("prog", inputs={
    "p": shell.arg(type=str | None, argstr="-p", default=None),
    "q": shell.arg(type=str | None, argstr="-q", default=None),
    "r": shell.arg(type=str | None, argstr="-r", default=None),
}, xor=[["p", "q", None], ["q", "r"]], name="Xor")
