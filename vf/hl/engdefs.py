"""task definitions for engine-level harnesses (module level so that they pickle by reference)"""
import typing as ty
from pydra.compose import python, workflow


@python.define(outputs={"a": int, "b": int})
def Two(mode: int, x: int = 0):
    """body whose return shape / failure is selected by `mode`"""
    import vf.rec as R
    R.rec("Two", mode, x)
    if mode == 0:
        raise ValueError("boom-%d" % x)
    if mode == 12:
        raise SystemExit(3)                 # e.g. sys.exit(3) somewhere below the task function
    if mode == 13:
        raise KeyboardInterrupt()
    if mode == 14:
        import os, shutil
        shutil.rmtree(os.getcwd())          # the body removes its own working directory, then fails: the crash report cannot be written
        raise ValueError("boom-%d" % x)
    return {
        2: 5, 3: (), 4: (1,), 5: (x, 2), 6: (1, 2, 3),
        7: {}, 8: {"a": x}, 9: {"b": 2}, 10: {"a": x, "b": 2}, 11: {"a": x, "b": 2, "c": 3},
    }[mode]


VALID_MODES = {5: lambda x: (x, 2), 10: lambda x: (x, 2), 11: lambda x: (x, 2)}
INVALID_MODES = (2, 3, 4, 6, 7, 8, 9)


@python.define
def Inc(x: int, tag: int = 0, fail: bool = False) -> int:
    import vf.rec as R
    R.rec("Inc", x, tag)
    if fail:
        raise ValueError("Inc failed on %d/%d" % (x, tag))
    return x + 1


@python.define
def Pair(x: int, y: int, tag: int = 0) -> int:
    import vf.rec as R
    R.rec("Pair", x, y, tag)
    return 100 * x + y


@python.define
def Total(xs: list[int], tag: int = 0) -> int:
    import vf.rec as R
    R.rec("Total", tuple(xs), tag)
    return sum(xs)


@workflow.define
def Chain2(x: int, fail: bool = False) -> int:
    a = workflow.add(Inc(x=x, tag=1), name="a")
    b = workflow.add(Inc(x=a.out, tag=2, fail=fail), name="b")
    return b.out


@python.define
def Flaky(x: int, tag: int = 0) -> int:
    """fails when vf.rec.FLAGS['fail'] is set (failure that is not part of the inputs)"""
    import vf.rec as R
    R.rec("Flaky", x, tag)
    if R.FLAGS.get("on_body"):
        R.FLAGS["on_body"]()
    if R.FLAGS.get("chdir"):
        import os
        os.chdir(R.FLAGS["chdir"])       # a body that changes the working directory itself
    if R.FLAGS.get("fail") or R.FLAGS.get("fail_x") == x:
        raise ValueError("Flaky failed")
    return x * 10 + tag


@workflow.define
def FlakySplit(xs: list[int]) -> list[int]:
    """one split node over xs; elements fail through vf.rec.FLAGS (not part of the inputs)"""
    s = workflow.add(Flaky(tag=1).split(x=xs), name="s")
    return s.out


@workflow.define
def FlakyWf(x: int) -> int:
    a = workflow.add(Flaky(x=x, tag=1), name="a")
    b = workflow.add(Flaky(x=a.out, tag=2), name="b")
    return b.out


@python.define
def Node(x: int, tag: int = 0, fail: bool = False) -> int:
    """generic workflow node body: logs, optionally fails, returns x + tag"""
    import vf.rec as R
    R.rec("Node", x, tag)
    if fail:
        raise ValueError("node %d failed" % tag)
    return x + tag


@python.define
def Join(x: int, y: int, tag: int = 0) -> int:
    import vf.rec as R
    R.rec("Join", x, y, tag)
    return x * 1000 + y + tag


@python.define
def Join3(x: int, y: int, z: int, tag: int = 0) -> int:
    import vf.rec as R
    R.rec("Join3", x, y, z, tag)
    return x * 10000 + y * 100 + z + tag


@workflow.define(outputs=["j"])
def DupRef(x: int):
    """j reads a twice and then b, which sits at the end of a longer branch (c -> d -> b)"""
    a = workflow.add(Node(x=x, tag=1), name="a")
    c = workflow.add(Node(x=x, tag=2), name="c")
    d = workflow.add(Node(x=c.out, tag=3), name="d")
    b = workflow.add(Node(x=d.out, tag=4), name="b")
    j = workflow.add(Join3(x=a.out, y=a.out, z=b.out, tag=5), name="j")
    return j.out


@workflow.define(outputs=["f", "m"])
def IndepChains(x: int, f_fails: bool = False, k_fails: bool = False):
    """f (may fail) next to the independent chain k -> m"""
    f = workflow.add(Node(x=x, tag=1, fail=f_fails), name="f")
    k = workflow.add(Node(x=x, tag=2, fail=k_fails), name="k")
    m = workflow.add(Node(x=k.out, tag=3), name="m")
    return f.out, m.out


@workflow.define(outputs=["j", "t"])
def ForkJoin(x: int, p_fails: bool = False, q_fails: bool = False):
    """s -> (p, q) -> j ; plus an independent tail t"""
    s = workflow.add(Node(x=x, tag=1), name="s")
    p = workflow.add(Node(x=s.out, tag=2, fail=p_fails), name="p")
    q = workflow.add(Node(x=s.out, tag=3, fail=q_fails), name="q")
    j = workflow.add(Join(x=p.out, y=q.out, tag=4), name="j")
    t = workflow.add(Node(x=x, tag=5), name="t")
    u = workflow.add(Node(x=t.out, tag=6), name="u")
    return j.out, u.out


@workflow.define(outputs=["sp", "m"])
def SplitAndChain(xs: list[int], k_fails: bool = False):
    """a split node next to the chain k -> m"""
    sp = workflow.add(Node(tag=1).split(x=xs), name="sp")
    k = workflow.add(Node(x=7, tag=2, fail=k_fails), name="k")
    m = workflow.add(Node(x=k.out, tag=3), name="m")
    return sp.out, m.out


@workflow.define(outputs=["a", "b", "c", "d"])
def Wide(x: int):
    """four independent nodes"""
    a = workflow.add(Node(x=x, tag=1), name="a")
    b = workflow.add(Node(x=x, tag=2), name="b")
    c = workflow.add(Node(x=x, tag=3), name="c")
    d = workflow.add(Node(x=x, tag=4), name="d")
    return a.out, b.out, c.out, d.out


@workflow.define(outputs=["tot", "pairs"])
def SplitCombine(xs: list[int], ys: list[int]):
    """two independent splits feeding an outer-product node, then a combine over one axis"""
    a = workflow.add(Node(tag=1).split(x=xs), name="a")
    b = workflow.add(Node(tag=2).split(x=ys), name="b")
    p = workflow.add(Pair(x=a.out, y=b.out, tag=3).combine("a.x"), name="p")
    t = workflow.add(Total(xs=p.out, tag=4), name="t")
    return t.out, p.out


@python.define
def AnyNode(x: ty.Any, tag: int = 0) -> ty.Any:
    import vf.rec as R
    R.rec("AnyNode", x, tag)
    return x


@workflow.define
def LateAssign(x: int, typed: bool = True) -> ty.Any:
    """three nodes a -> b -> c; then one late assignment node_i.inputs.x = node_j.out chosen by vf.rec.FLAGS['late']"""
    import vf.rec as R
    mk = (lambda v, t: Node(x=v, tag=t)) if typed else (lambda v, t: AnyNode(x=v, tag=t))
    a = workflow.add(mk(x, 1), name="a")
    b = workflow.add(mk(a.out, 2), name="b")
    c = workflow.add(mk(b.out, 3), name="c")
    nodes = [a, b, c]
    late = R.FLAGS.get("late")
    if late is not None:
        wf = workflow.this()
        for (i, j) in (late if isinstance(late, list) else [late]):
            wf[["a", "b", "c"][i]].inputs.x = nodes[j].out
    return c.out


# ------------------------------------------------------------------ C03 shapes
@python.define
def ListOut(n: int, tag: int = 0) -> list[int]:
    import vf.rec as R
    R.rec("ListOut", n, tag)
    return [10 * n + i for i in range(n)]


@workflow.define(outputs=["out"])
def W1(xs: list[int]):
    a = workflow.add(Node(tag=1).split(x=xs), name="a")
    b = workflow.add(Node(x=a.out, tag=2), name="b")
    return b.out


@workflow.define(outputs=["out"])
def W2(xs: list[int], ys: list[int]):
    a = workflow.add(Node(tag=1).split(x=xs), name="a")
    b = workflow.add(Node(tag=2).split(x=ys), name="b")
    p = workflow.add(Pair(x=a.out, y=b.out, tag=3), name="p")
    return p.out


@workflow.define(outputs=["out"])
def W3(xs: list[int]):
    """shared-origin diamond"""
    a = workflow.add(Node(tag=1).split(x=xs), name="a")
    b = workflow.add(Node(x=a.out, tag=2), name="b")
    c = workflow.add(Node(x=a.out, tag=3), name="c")
    d = workflow.add(Pair(x=b.out, y=c.out, tag=4), name="d")
    return d.out


@workflow.define(outputs=["out"])
def W4(xs: list[int]):
    a = workflow.add(Node(tag=1).split(x=xs), name="a")
    b = workflow.add(Node(x=a.out, tag=2).combine("a.x"), name="b")
    c = workflow.add(Total(xs=b.out, tag=3), name="c")
    return c.out


@workflow.define(outputs=["out"])
def W5(xs: list[int], ys: list[int]):
    a = workflow.add(Node(tag=1).split(x=xs), name="a")
    p = workflow.add(Pair(x=a.out, tag=2).split("y", y=ys), name="p")
    return p.out


@workflow.define(outputs=["out"])
def W5kw(xs: list[int], ys: list[int]):
    """as W5 with the keyword-only spelling of the downstream split"""
    a = workflow.add(Node(tag=1).split(x=xs), name="a")
    p = workflow.add(Pair(x=a.out, tag=2).split(y=ys), name="p")
    return p.out


@workflow.define(outputs=["out"])
def W7(xs: list[int]):
    a = workflow.add(Node(tag=1).split(x=xs), name="a")
    b = workflow.add(Node(x=a.out, tag=2), name="b")
    c = workflow.add(Node(x=b.out, tag=3).combine("a.x"), name="c")
    return c.out


@workflow.define(outputs=["out"])
def W8(n: int):
    """split over an upstream list output"""
    a = workflow.add(ListOut(n=n, tag=1), name="a")
    b = workflow.add(Node(tag=2).split(x=a.out), name="b")
    return b.out


@workflow.define(outputs=["out"])
def W9(xs: list[int]):
    """one upstream node feeding both inputs"""
    a = workflow.add(Node(tag=1).split(x=xs), name="a")
    p = workflow.add(Pair(x=a.out, y=a.out, tag=2), name="p")
    return p.out


@workflow.define(outputs=["out"])
def W10(xs: list[int], ys: list[int]):
    """fan-in of two independent splits, combine the second one"""
    a = workflow.add(Node(tag=1).split(x=xs), name="a")
    b = workflow.add(Node(tag=2).split(x=ys), name="b")
    p = workflow.add(Pair(x=a.out, y=b.out, tag=3).combine("b.x"), name="p")
    return p.out


@workflow.define(outputs=["out"])
def W11(xs: list[int], ys: list[int]):
    """inner (paired) split at workflow level, then a map"""
    a = workflow.add(Pair(tag=1).split(("x", "y"), x=xs, y=ys), name="a")
    b = workflow.add(Node(x=a.out, tag=2), name="b")
    return b.out


class Box:
    def __init__(self, v):
        self.v = v


@python.define
def Mutator(data: ty.Any, kind: int, val: int, other: ty.Any = None) -> int:
    """body that modifies its input in place according to `kind`"""
    import vf.rec as R
    R.rec("Mutator", kind, val)
    if kind == 1:
        data.append(val)
    elif kind == 2:
        data["k"] = val
    elif kind == 3:
        data.add(val)
    elif kind == 4:
        data.v = val
    elif kind == 5:
        data[0] = val
    elif kind == 6 and data:
        data.pop()
    elif kind == 7:
        data.sort()
    elif kind == 8:
        data.append(other[-1])          # may make `data` equal to the other input
    elif kind == 9:
        tmp = dict(data)
        data.clear(); data.update(other)
        other.clear(); other.update(tmp)  # swap the contents of two dict inputs
    elif kind == 10:
        data[-1] += val                  # last element of a (large) array
    elif kind == 11:
        data[0].append(val)              # a list inside a tuple
    elif kind == 12:
        next(iter(data)).v = val         # an object inside a frozenset
    elif kind == 13:
        data[1]["k"] = val               # a dict inside a tuple inside a list
    return 1


@workflow.define(outputs=["out"])
def CW(a: int, b: int = 7):
    x = workflow.add(Node(x=a, tag=1), name="x")
    y = workflow.add(Pair(x=x.out, y=b, tag=2), name="y")
    return y.out


@workflow.define(outputs=["o1", "o2"])
def CWV(a: int, b: int = 7):
    """as CW with two outputs; for a == 3 the constructor returns one value for the two declared outputs (an invalid construction)"""
    x = workflow.add(Node(x=a, tag=1), name="x")
    y = workflow.add(Pair(x=x.out, y=b, tag=2), name="y")
    if a == 3:
        return x.out
    return x.out, y.out


@python.define
def Desc(a: ty.Any, tag: int = 0) -> str:
    import vf.rec as R
    R.rec("Desc", repr(a), tag)
    return repr(a)


from pydra.utils.messenger import Messenger  # noqa: E402


class ListMessenger(Messenger):
    """in-memory messenger (public plug-in API); records go to vf.rec.MSGS; can be told to fail on the closing record"""

    def send(self, message, **kwargs):
        import vf.rec as R
        if R.FLAGS.get("messenger_fails_on_end") and "endedAtTime" in message:
            raise RuntimeError("messenger failed on the closing record")
        R.MSGS.append(dict(message))


@python.define(outputs={"a": int, "b": int, "note": python.out(type=str | None, default=None)})
def TwoOpt(mode: int, x: int = 0):
    """outputs a, b mandatory and an optional note; return shape selected by mode"""
    import vf.rec as R
    R.rec("TwoOpt", mode, x)
    return {
        0: {"a": x, "b": 2}, 1: {"a": x, "b": 2, "note": "n"}, 2: {"a": x, "note": "partial"}, 3: {"b": 2, "note": "partial"},
        4: {"note": "only"}, 5: {"a": x}, 6: (x, 2, "n"), 7: (x, 2),
    }[mode]


from pydra.compose import shell as _shell  # noqa: E402

Sh = _shell.define("tool", inputs={"v": _shell.arg(type=str, argstr="-v", position=1)}, name="Sh")


@python.define
def NodeF(x: int, tag: int = 0, fail_on: int = -1) -> int:
    """fails for one particular input value"""
    import vf.rec as R
    R.rec("Node", x, tag)
    if x == fail_on:
        raise ValueError("node %d failed on %d" % (tag, x))
    return x + tag


@workflow.define(outputs=["x", "y"])
def TwoBranches(x: int, a_fails: bool = False):
    """a (may fail) -> b -> x next to c -> d -> y; x is added before y"""
    a = workflow.add(Node(x=x, tag=1, fail=a_fails), name="a")
    c = workflow.add(Node(x=x, tag=2), name="c")
    b = workflow.add(Node(x=a.out, tag=3), name="b")
    d = workflow.add(Node(x=c.out, tag=4), name="d")
    xx = workflow.add(Node(x=b.out, tag=5), name="x")
    yy = workflow.add(Node(x=d.out, tag=6), name="y")
    return xx.out, yy.out


@workflow.define(outputs=["d", "i"])
def SplitPartialFail(xs: list[int], fail_on: int = -1):
    """a split node of which one element fails, a node depending on it, and an independent chain"""
    s = workflow.add(NodeF(tag=1, fail_on=fail_on).split(x=xs), name="s")
    d = workflow.add(Node(x=s.out, tag=2), name="d")
    i1 = workflow.add(Node(x=1, tag=3), name="i1")
    i2 = workflow.add(Node(x=i1.out, tag=4), name="i2")
    i3 = workflow.add(Node(x=i2.out, tag=5), name="i3")
    return d.out, i3.out


@python.define
def Journal(x: int, tag: int = 0) -> int:
    """body that is sensitive to leftovers in its working directory: appends a line to journal.txt and returns the line count"""
    import vf.rec as R
    R.rec("Flaky", x, tag)
    with open("journal.txt", "a") as f:
        f.write("run %d\n" % x)
    if R.FLAGS.get("on_body"):
        R.FLAGS["on_body"]()
    if R.FLAGS.get("fail"):
        raise ValueError("Journal failed")
    return len(open("journal.txt").read().splitlines())


@workflow.define(outputs=["out"])
def Sub3(x: int, base: int = 10):
    a = workflow.add(Node(x=x, tag=base + 1), name="a")
    b = workflow.add(Node(x=x, tag=base + 2), name="b")
    c = workflow.add(Node(x=x, tag=base + 3), name="c")
    j = workflow.add(Join(x=a.out, y=b.out, tag=base + 4), name="j")
    return j.out


@workflow.define
def SubFail(x: int, fails: bool = False) -> int:
    a = workflow.add(Node(x=x, tag=11, fail=fails), name="a")
    b = workflow.add(Node(x=a.out, tag=12), name="b")
    return b.out


@workflow.define(outputs=["s", "r"])
def NestedFail(x: int, inner_fails: bool = False):
    """a nested workflow whose first job may fail, next to the independent chain r1 -> r2 -> r3 (added first)"""
    r1 = workflow.add(Node(x=x, tag=1), name="r1")
    r2 = workflow.add(Node(x=r1.out, tag=2), name="r2")
    r3 = workflow.add(Node(x=r2.out, tag=3), name="r3")
    s = workflow.add(SubFail(x=x, fails=inner_fails), name="s")
    return s.out, r3.out


@workflow.define(outputs=["s1", "s2", "r"])
def Nested(x: int):
    """two sibling sub-workflows next to two regular jobs"""
    r1 = workflow.add(Node(x=x, tag=1), name="r1")
    r2 = workflow.add(Node(x=x, tag=2), name="r2")
    s1 = workflow.add(Sub3(x=x, base=10), name="s1")
    s2 = workflow.add(Sub3(x=x, base=20), name="s2")
    return s1.out, s2.out, r2.out


@workflow.define(outputs=["out"])
def W12(xs: list[int]):
    """consumer reads a split node and a node derived from it"""
    a = workflow.add(Node(tag=1).split(x=xs), name="a")
    b = workflow.add(Node(x=a.out, tag=2), name="b")
    p = workflow.add(Pair(x=a.out, y=b.out, tag=3), name="p")
    return p.out


@workflow.define(outputs=["out"])
def W13(xs: list[int], ys: list[int]):
    """two independent splits, a node derived from the first, fan-in of all three"""
    a = workflow.add(Node(tag=1).split(x=xs), name="a")
    c = workflow.add(Node(tag=2).split(x=ys), name="c")
    b = workflow.add(Pair(x=a.out, y=c.out, tag=3), name="b")
    p = workflow.add(Pair(x=b.out, y=a.out, tag=4), name="p")
    return p.out
