"""task definitions for engine-level harnesses (module level so that they pickle by reference)"""
import typing as ty
from pydra.compose import python, workflow


@python.define(outputs={"a": int, "b": int})
def Two(mode: int, x: int = 0):
    """body whose return shape / failure is selected by `mode`"""
    import vf.rec as R
    R.rec("Two", mode, x)
    if mode == 0:
        raise ValueError("boom-%d" % x)
    return {
        2: 5, 3: (), 4: (1,), 5: (x, 2), 6: (1, 2, 3),
        7: {}, 8: {"a": x}, 9: {"b": 2}, 10: {"a": x, "b": 2}, 11: {"a": x, "b": 2, "c": 3},
    }[mode]


VALID_MODES = {5: lambda x: (x, 2), 10: lambda x: (x, 2), 11: lambda x: (x, 2)}
INVALID_MODES = (2, 3, 4, 6, 7, 8, 9)


@python.define
def Inc(x: int, tag: int = 0, fail: bool = False) -> int:
    import vf.rec as R
    R.rec("Inc", x, tag)
    if fail:
        raise ValueError("Inc failed on %d/%d" % (x, tag))
    return x + 1


@python.define
def Pair(x: int, y: int, tag: int = 0) -> int:
    import vf.rec as R
    R.rec("Pair", x, y, tag)
    return 100 * x + y


@python.define
def Total(xs: list[int], tag: int = 0) -> int:
    import vf.rec as R
    R.rec("Total", tuple(xs), tag)
    return sum(xs)


@workflow.define
def Chain2(x: int, fail: bool = False) -> int:
    a = workflow.add(Inc(x=x, tag=1), name="a")
    b = workflow.add(Inc(x=a.out, tag=2, fail=fail), name="b")
    return b.out


@python.define
def Flaky(x: int, tag: int = 0) -> int:
    """fails when vf.rec.FLAGS['fail'] is set (failure that is not part of the inputs)"""
    import vf.rec as R
    R.rec("Flaky", x, tag)
    if R.FLAGS.get("on_body"):
        R.FLAGS["on_body"]()
    if R.FLAGS.get("fail"):
        raise ValueError("Flaky failed")
    return x * 10 + tag


@workflow.define
def FlakyWf(x: int) -> int:
    a = workflow.add(Flaky(x=x, tag=1), name="a")
    b = workflow.add(Flaky(x=a.out, tag=2), name="b")
    return b.out
