"""FakeAsyncio + ScriptedWorker: the real Submitter.expand_workflow_async / NodeExecution code driven by a
cooperative scheduler whose choices (which pending jobs are seen running, which complete at each wake-up,
in which order) are symbolic integers.

Stub contract:
  asyncio (as seen from pydra.engine.submitter): Task(coro, name) registers a pending job; wait(futures,
      FIRST_COMPLETED) lets any subset of pending jobs become visibly 'running' (their lock file exists), lets any subset
      run to its end without reporting yet (result on disk, future still pending - a polling worker), and
      completes a non-empty subset chosen by the schedule, never returning an empty `done`; sleep() returns at once.
  loop.run_until_complete(coro): drives the coroutine to completion (nothing ever really suspends).
  ScriptedWorker.run(job): executes a pickled copy of the job with the real Job.run when the schedule completes it
      (as the process-pool worker does in a child process) and logs start/finish events.
"""
import os

import attrs
import cloudpickle

import vf.engine as E
import vf.rec as R

E.install_all()

import pydra.engine.submitter as SUB  # noqa: E402
from pydra.workers.base import Worker  # noqa: E402


class Sched:
    def __init__(self, choices=()):
        self.choices, self.pos = list(choices), 0

    def next(self, n):
        if n <= 1:
            return 0
        if self.pos < len(self.choices):
            v = self.choices[self.pos] % n
            self.pos += 1
            return v
        return 0


def decode(code, n=6, base=4):
    """schedule code -> n decisions in 0..base-1.  The map is a bijection on 0..base**n-1 (multiplication by an odd constant
    modulo a power of two), so every schedule inside the bound is still reachable, but consecutive codes - which is the
    order in which CrossHair enumerates a realised integer - give unrelated schedules instead of schedules that differ
    only in their last, often unused, decision."""
    m = base ** n
    x = (code * 2654435761 + 12345) % m if (m & (m - 1)) == 0 else code % m
    out = []
    for _ in range(n):
        out.append(x % base)
        x //= base
    return out


STATE = {"sched": Sched(), "events": [], "inflight": 0, "max_inflight": 0, "order": 0, "waits": 0, "sleeps": 0, "budget_hit": None}


def reset(choices=()):
    STATE.update(sched=Sched(choices), events=[], inflight=0, max_inflight=0, order=0, waits=0, sleeps=0, rounds=0, all_complete=False, budget_hit=None, lagging=False)


class BudgetExceeded(Exception):
    """a step budget derived from the code was exceeded; also recorded in STATE['budget_hit'] because pydra's own
    `finally: raise RuntimeError(...)` can replace the exception on its way out"""

    def __init__(self, msg):
        super().__init__(msg)
        STATE["budget_hit"] = msg


class FakeTask:
    def __init__(self, coro, name=None):
        self.coro, self.name = coro, name
        self.finished, self.value, self.exc = False, None, None
        self.running_visible = False
        self.executed = False
        STATE["order"] += 1
        self.order = STATE["order"]
        STATE["inflight"] += 1
        STATE["max_inflight"] = max(STATE["max_inflight"], STATE["inflight"])
        job = getattr(coro, "cr_frame", None) and coro.cr_frame.f_locals.get("job")
        self.job = job
        STATE["events"].append(("submit", self._label()))

    def _label(self):
        j = self.job
        return (j.name, j.state_index) if j is not None else (self.name, None)

    def get_name(self):
        return self.name

    def make_visible(self):
        """the job is now observed as running: its lock file exists (as when a child process holds the lock)"""
        if self.job is not None and not self.running_visible:
            self.running_visible = True
            open(self.job.lockfile, "w").close()
            STATE["events"].append(("visible", self._label()))

    def execute(self):
        """the job runs to its end now (its result is on disk) but the future has not been reported yet"""
        if self.executed:
            return
        self.executed = True
        if self.running_visible:
            try:
                os.unlink(self.job.lockfile)
            except FileNotFoundError:
                pass
        try:
            self.coro.send(None)
            raise RuntimeError("worker coroutine suspended unexpectedly")
        except StopIteration as e:
            self.value = e.value
        except Exception as e:
            self.exc = e
        STATE["events"].append(("executed-unreported", self._label()))

    def complete(self):
        self.execute()
        self.finished = True
        STATE["inflight"] -= 1

    def result(self):
        if self.exc is not None:
            raise self.exc
        return self.value

    def done(self):
        return self.finished


class FakeAsyncio:
    FIRST_COMPLETED = "FIRST_COMPLETED"
    Task = FakeTask

    @staticmethod
    async def wait(futures, return_when=None):
        pend = sorted(futures, key=lambda t: t.order)
        if not pend:
            raise ValueError("Set of Tasks/Futures is empty.")
        STATE["waits"] += 1
        if STATE["waits"] > 200:
            raise BudgetExceeded("more than 200 wake-ups")
        s = STATE["sched"]
        first = pend[s.next(len(pend))]
        done = [first]
        for t in pend:
            if t is first:
                continue
            c = s.next(4)          # 0: stays queued, 1: becomes visibly running, 2: completes too, 3: runs to its end but reports later
            if STATE.get("all_complete"):
                c = 2              # restricted schedules: every submitted job completes before the next wake-up
            elif STATE.get("lagging"):
                c = 3 if c >= 2 else 0       # polling-worker schedules: jobs finish on disk before their future is reported
            if c == 1:
                t.make_visible()
            elif c == 2:
                done.append(t)
            elif c == 3:
                t.execute()
        if s.next(2):
            done.reverse()
        for t in done:
            t.complete()
        return set(done), set(pend) - set(done)

    @staticmethod
    def get_event_loop():
        return _get_event_loop()

    new_event_loop = get_event_loop

    @staticmethod
    def set_event_loop(loop):
        pass

    @staticmethod
    async def sleep(t):
        STATE["sleeps"] += 1
        E._TICK[0] += 1
        if STATE["sleeps"] > 100:
            raise BudgetExceeded("more than 100 sleeps")


def _get_event_loop():
    return FakeLoop()


class FakeLoop:
    def run_until_complete(self, coro):
        try:
            coro.send(None)
        except StopIteration as e:
            return e.value
        raise RuntimeError("top-level coroutine suspended: something awaited a real future")

    def is_running(self):
        return False

    def is_closed(self):
        return False

    def close(self):
        pass


@attrs.define
class ScriptedWorker(Worker):
    _plugin_name = "scripted"

    async def run(self, job, rerun=False):
        label = (job.name, job.state_index)
        STATE["events"].append(("start", label))
        copy = cloudpickle.loads(cloudpickle.dumps(job))
        try:
            res = copy.run(rerun=rerun)
        except Exception:
            STATE["events"].append(("finish-err", label))
            raise
        STATE["events"].append(("finish-ok", label))
        return res


_real_grt = SUB.Submitter.get_runnable_tasks


def _budgeted_grt(self, graph):
    """termination budget derived from the code: every round of either execution loop must hand out or
    retire at least one job, so a workflow of n jobs needs at most n+1 rounds (+11 for the stall detector)"""
    STATE["rounds"] = STATE.get("rounds", 0) + 1
    if STATE["rounds"] > 120:
        raise BudgetExceeded("get_runnable_tasks called more than 120 times for a workflow of < 10 jobs")
    return _real_grt(self, graph)


def install():
    SUB.asyncio = FakeAsyncio
    import pydra.engine.job as JOB
    JOB.asyncio = FakeAsyncio          # PydraFileLock.__aenter__ sleeps between its attempts to take a held lock
    SUB.Submitter.get_runnable_tasks = _budgeted_grt


def submitter(cache_root, max_concurrent=None, **kw):
    install()
    kwargs = dict(cache_root=cache_root, worker=ScriptedWorker(), **kw)
    if max_concurrent is not None:
        kwargs["max_concurrent"] = max_concurrent
    sub = SUB.Submitter(**kwargs)
    sub.loop = FakeLoop()
    sub.worker.loop = sub.loop
    return sub


def run_async(task, cache_root, choices=(), max_concurrent=None, **kw):
    """returns (result | None, exception | None, events)"""
    reset(choices)
    sub = submitter(cache_root, max_concurrent, **kw)
    res = err = None
    try:
        res = sub(task, raise_errors=True)
    except Exception as e:
        err = e
    return res, err, list(STATE["events"])
