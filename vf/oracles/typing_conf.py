"""Structural conformance oracle for C20/C21: does value v conform to type expression T?"""
import os
import types
import typing as ty
from pathlib import Path


def _is_multi(T):
    return getattr(T, "__name__", "") == "MultiInputObj" or getattr(ty.get_origin(T), "__name__", "") == "MultiInputObj"


def conforms(v, T):
    if T is ty.Any:
        return True
    if T is None or T is type(None):
        return v is None
    origin = ty.get_origin(T)
    args = ty.get_args(T)
    if origin in (ty.Union, types.UnionType):
        return any(conforms(v, a) for a in args)
    if _is_multi(T):
        if not isinstance(v, list):
            return False
        return all(conforms(e, args[0]) for e in v) if args else True
    if origin is None:
        if T is float:
            return isinstance(v, (float, int)) and not isinstance(v, bool) or isinstance(v, float)
        if T is int:
            return isinstance(v, int)
        if T is Path:
            return isinstance(v, os.PathLike)
        if T in (str, bytes, bool):
            return isinstance(v, T)
        return isinstance(v, T)
    if origin in (list, set, frozenset):
        if not isinstance(v, origin) or isinstance(v, (str, bytes)):
            return False
        return all(conforms(e, args[0]) for e in v)
    if origin is tuple:
        if not isinstance(v, tuple):
            return False
        if len(args) == 2 and args[1] is Ellipsis:
            return all(conforms(e, args[0]) for e in v)
        return len(v) == len(args) and all(conforms(e, a) for e, a in zip(v, args))
    if origin is dict:
        if not isinstance(v, dict):
            return False
        return all(conforms(k, args[0]) and conforms(x, args[1]) for k, x in v.items())
    if origin is ty.Sequence or getattr(origin, "__name__", "") == "Sequence":
        if isinstance(v, str):
            return False
        if isinstance(v, (bytes, bytearray)):
            # structurally a sequence of ints: conforms when every element does (an empty one vacuously, for any element type)
            return all(conforms(e, args[0]) for e in v)
        if not isinstance(v, (list, tuple)):
            return False
        return all(conforms(e, args[0]) for e in v)
    return isinstance(v, origin)


def str_mangled(v, out):
    """True when a string was split into a container or a collection joined into a string"""
    if isinstance(v, str):
        if isinstance(out, (list, tuple, set, frozenset)) and not (len(out) == 1 and v in out):
            return True
        if isinstance(out, dict):
            return True
    if isinstance(v, (list, tuple, set, frozenset, dict)) and isinstance(out, str):
        return True
    return False


def same_value(a, b):
    """equality that treats NaN as equal to itself (recursively through the standard containers)"""
    if type(a) is not type(b):
        return False
    if isinstance(a, float):
        return a == b or (a != a and b != b)
    if isinstance(a, (list, tuple)):
        return len(a) == len(b) and all(same_value(x, y) for x, y in zip(a, b))
    if isinstance(a, dict):
        return a.keys() == b.keys() and all(same_value(a[k], b[k]) for k in a)
    return a == b
