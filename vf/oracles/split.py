"""Independent reference semantics for splitters/combiners (DESIGN.md C01/C02).

A splitter tree is: "f" (field), [t1, t2, ...] (outer product), (t1, t2, ...) (inner product).
The reference works on *indices*; values are looked up by the caller.
"""
import itertools


class Reject(Exception):
    """the reference says the request is ill-formed (inner product of different lengths)"""


class MayReject(Exception):
    """equal number of elements but different nested shape: pydra may reject (not judged)"""


def fields(tree):
    if isinstance(tree, str):
        return [tree]
    out = []
    for t in tree:
        out += fields(t)
    return out


def shape(tree, lens):
    """nested shape of the expansion (tuple of ints); raises Reject/MayReject for inner mismatches"""
    if isinstance(tree, str):
        return (lens[tree],)
    shapes = [shape(t, lens) for t in tree]
    if isinstance(tree, list):
        return tuple(itertools.chain.from_iterable(shapes))
    first = shapes[0]
    for s in shapes[1:]:
        if s != first:
            n0, n1 = 1, 1
            for x in first:
                n0 *= x
            for x in s:
                n1 *= x
            if n0 != n1:
                raise Reject(f"inner product of {first} and {s}")
            raise MayReject(f"inner product of shapes {first} and {s}")
    return first


def expand(tree, lens):
    """list of {field: index} in enumeration order (left-most slowest for outer)."""
    if isinstance(tree, str):
        return [{tree: i} for i in range(lens[tree])]
    parts = [expand(t, lens) for t in tree]
    out = []
    if isinstance(tree, list):
        for combo in itertools.product(*parts):
            d = {}
            for c in combo:
                d.update(c)
            out.append(d)
        return out
    n = len(parts[0])
    for p in parts[1:]:
        if len(p) != n:
            raise Reject("inner product lengths differ")
    for k in range(n):
        d = {}
        for p in parts:
            d.update(p[k])
        out.append(d)
    return out


def axes(tree):
    """list of axes, each a frozenset of fields; outer concatenates, inner identifies positionally"""
    if isinstance(tree, str):
        return [frozenset([tree])]
    sub = [axes(t) for t in tree]
    if isinstance(tree, list):
        return list(itertools.chain.from_iterable(sub))
    n = len(sub[0])
    out = []
    for k in range(n):
        s = set()
        for a in sub:
            if k < len(a):
                s |= a[k]
        out.append(frozenset(s))
    return out


def combine(tree, lens, combiner):
    """reference partition: list of groups (lists of job indices) in enumeration order.

    Combining a field removes its whole axis.  Full combine -> one flat group.
    Returns (groups, remaining_axes)."""
    jobs = expand(tree, lens)
    ax = axes(tree)
    removed = [a for a in ax if a & set(combiner)]
    remaining = [a for a in ax if not (a & set(combiner))]
    if not remaining:
        return [list(range(len(jobs)))], remaining
    groups, order = {}, []
    for idx, job in enumerate(jobs):
        key = tuple(job[sorted(a)[0]] for a in remaining)
        if key not in groups:
            groups[key] = []
            order.append(key)
        groups[key].append(idx)
    return [groups[k] for k in order], remaining


def trees(fs, max_arity=3, ops=("list", "tuple")):
    """all splitter trees using every field in fs exactly once, in the given order"""
    fs = list(fs)
    if len(fs) == 1:
        return [fs[0]]
    out = []
    for k in range(2, min(max_arity, len(fs)) + 1):
        for cuts in itertools.combinations(range(1, len(fs)), k - 1):
            bounds = (0,) + cuts + (len(fs),)
            segs = [fs[bounds[i]:bounds[i + 1]] for i in range(k)]
            for children in itertools.product(*[trees(s, max_arity, ops) for s in segs]):
                if "list" in ops:
                    out.append(list(children))
                if "tuple" in ops:
                    out.append(tuple(children))
    return out


def tree_name(tree):
    if isinstance(tree, str):
        return tree
    inner = "".join(tree_name(t) for t in tree)
    return ("O" + inner + "o") if isinstance(tree, list) else ("I" + inner + "i")


def prefix(tree, name):
    if isinstance(tree, str):
        return f"{name}.{tree}"
    return type(tree)(prefix(t, name) for t in tree)
