"""Independent argv builder written from the documented field semantics (property C22):

executable, then the arguments of each *set* field ordered by position (non-negative ascending,
then unpositioned fields in definition order, then negative ascending), then append_args.
None fields, False flags and empty lists contribute nothing; True flags contribute the flag;
lists expand per argstr ('...' repeats the flag per element, otherwise the elements are joined
with the separator; a blank separator gives separate arguments)."""


def field_args(spec, value, values=None):
    """spec: dict(kind, argstr, sep) ; returns list[str].  A template may also name the first element of another
    (list-valued, set) field as {other[0]} (spec["xref"] = other)."""
    kind, argstr, sep = spec["kind"], spec["argstr"], spec.get("sep", " ")
    if value is None:
        return []
    if spec.get("xref"):
        argstr = argstr.replace("{%s[0]}" % spec["xref"], str(values[spec["xref"]][0]))
    if kind == "flag":
        return [argstr] if value is True else []
    templated = "{" in argstr
    if kind in ("str", "int", "float"):
        if templated:
            return [argstr.replace("{%s}" % spec["name"], str(value))]
        return ([argstr] if argstr else []) + [str(value)]
    if kind == "multi":
        out = []
        for v in value:
            if templated:
                out.append(argstr.replace("{%s}" % spec["name"], str(v)))
            else:
                out += ([argstr] if argstr else []) + [str(v)]
        return out
    if kind == "list":
        if not value:
            return []
        if argstr.endswith("..."):
            flag = argstr[:-3]
            out = []
            for v in value:
                out += ([flag] if flag else []) + [str(v)]
            return out
        if sep == " ":
            joined = [str(v) for v in value]
        else:
            joined = [sep.join(str(v) for v in value)]
        if templated:
            return [argstr.replace("{%s}" % spec["name"], " ".join(joined))] if sep != " " else \
                (argstr.replace("{%s}" % spec["name"], " ".join(joined))).split(" ")
        return ([argstr] if argstr else []) + joined
    raise ValueError(kind)


def argv(executable, specs, values, append_args=()):
    pos, none, neg = [], [], []
    for k, spec in enumerate(specs):
        args = field_args(spec, values.get(spec["name"]), values)
        if not args:
            continue
        p = spec.get("position")
        if p is None:
            none.append(args)
        elif p < 0:
            neg.append((p, args))
        else:
            pos.append((p, args))
    out = [executable]
    for _, a in sorted(pos, key=lambda x: x[0]):
        out += a
    for a in none:
        out += a
    for _, a in sorted(neg, key=lambda x: x[0]):
        out += a
    return out + list(append_args)
