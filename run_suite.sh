#!/bin/sh
# Run the repository's baseline suite (guard off) on a scratch worktree of /repo's HEAD and compare
# with BASELINE.json stable_pass.  usage: run_suite.sh [extra pytest args]  (e.g. -n 8)
OUT=${SUITE_OUT:-/tmp/suite.junit.xml}
WT=${SUITE_WT:-/tmp/suite_wt}
git -C /repo worktree remove --force $WT 2>/dev/null
rm -rf $WT
git -C /repo worktree add -q --detach $WT HEAD || exit 2
cp /venv/lib/python3.12/site-packages/pydra/utils/_version.py $WT/pydra/utils/_version.py 2>/dev/null
cp /repo/pydra/engine/tests/data_tests/test.nii.gz $WT/pydra/engine/tests/data_tests/ 2>/dev/null
echo "suite on $(git -C $WT rev-parse --short HEAD)"
cd $WT && env -u NIPYPE_PYDRA_VERIF PYTHONPATH=$WT /venv/bin/python -m pytest -ra -q -p no:cacheprovider --timeout=900 --continue-on-collection-errors --junitxml=$OUT "$@" >${OUT}.log 2>&1
/venv/bin/python - "$OUT" <<'P'
import json, sys, xml.etree.ElementTree as ET
base = json.load(open('/root/.vp/BASELINE.json'))
want = set(base['stable_pass'])
got = {}
for tc in ET.parse(sys.argv[1]).getroot().iter('testcase'):
    name = tc.get('classname') + '::' + tc.get('name')
    bad = any(ch.tag in ('failure', 'error') for ch in tc)
    skipped = any(ch.tag == 'skipped' for ch in tc)
    got[name] = 'fail' if bad else ('skip' if skipped else 'pass')
missing = sorted(n for n in want if got.get(n) != 'pass')
print('stable_pass', len(want), 'passing now', len(want) - len(missing))
for n in missing[:40]:
    print('  NOT PASSING:', n, got.get(n))
sys.exit(1 if missing else 0)
P
rc=$?
git -C /repo worktree remove --force $WT 2>/dev/null
exit $rc
