#!/bin/sh
# Run the repository's baseline suite (guard off) and compare with BASELINE.json stable_pass.
# usage: run_suite.sh [extra pytest args]   (uses xdist when available for speed)
OUT=${SUITE_OUT:-/tmp/suite.junit.xml}
cd /repo && env -u NIPYPE_PYDRA_VERIF /venv/bin/python -m pytest -ra -q -p no:cacheprovider --timeout=900 --continue-on-collection-errors --junitxml=$OUT "$@" >/tmp/suite.log 2>&1
/venv/bin/python - "$OUT" <<'P'
import json, sys, xml.etree.ElementTree as ET
base = json.load(open('/root/.vp/BASELINE.json'))
want = set(base['stable_pass'])
got = {}
for tc in ET.parse(sys.argv[1]).getroot().iter('testcase'):
    name = tc.get('classname') + '::' + tc.get('name')
    bad = any(ch.tag in ('failure', 'error') for ch in tc)
    skipped = any(ch.tag == 'skipped' for ch in tc)
    got[name] = 'fail' if bad else ('skip' if skipped else 'pass')
missing = sorted(n for n in want if got.get(n) != 'pass')
print('stable_pass', len(want), 'passing now', len(want) - len(missing))
for n in missing[:40]:
    print('  NOT PASSING:', n, got.get(n))
sys.exit(1 if missing else 0)
P
