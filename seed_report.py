#!/usr/bin/env python3
"""Write seeded/README.md (table of seeded changes and which check caught them) from the meta.json files."""
import json, os
ROOT = "/verif/seeded"
notes = json.load(open("/verif/seed_notes.json"))
rows = []
for name in sorted(os.listdir(ROOT)):
    p = os.path.join(ROOT, name, "meta.json")
    if not os.path.exists(p):
        continue
    m = json.load(open(p))
    if name in notes and m.get("needs") != notes[name]:
        m["needs"] = notes[name]
        json.dump(m, open(p, "w"), indent=1)
    c = m.get("confirm", {})
    suite = c.get("suite", {})
    caught = [k for k, v in (m.get("check_result") or {}).items() if v.get("exit") == 1]
    rows.append((name, m.get("property"), m.get("needs", ""), c.get("demo_exit_clean"), c.get("demo_exit_patched"),
                 (f"{suite.get('passing_with_change')}/{suite.get('stable_pass')}" if suite else "pending"),
                 ", ".join(caught) if caught else ("MISSED" + (": " + m["miss_reason"] if m.get("miss_reason") else ""))))
with open(os.path.join(ROOT, "README.md"), "w") as f:
    f.write("# Seeded changes\n\nEach directory holds `patch.diff` (against /repo HEAD at `confirm.base_commit`), `demo.py` (exits 0 on the clean tree, non-zero with the patch), "
            "`meta.json` and, for the first of each pair, the author's `NOTES_agent.md`. Regenerate with `./seed_all.py [--suite] [names]` and `./seed_report.py`.\n\n")
    f.write("| change | property | what it needs to manifest | demo clean/patched | suite with change | caught by (quick tier) |\n|---|---|---|---|---|---|\n")
    for r in rows:
        f.write("| %s | %s | %s | %s / %s | %s | %s |\n" % r)
# compact table for DESIGN.md section 10.6 (between the markers)
import re
def conds(m):
    out = []
    for v in (m.get("check_result") or {}).values():
        for line in v.get("violations", []):
            mm = re.search(r"counterexample: (\w+)\(", line)
            if mm and mm.group(1) not in out:
                out.append(mm.group(1))
    return out
lines = ["| change | what it does / needs | caught by (quick tier) |", "|---|---|---|"]
n_caught = n_all = 0
for name in sorted(os.listdir(ROOT)):
    p = os.path.join(ROOT, name, "meta.json")
    if not os.path.exists(p):
        continue
    m = json.load(open(p))
    n_all += 1
    caught = [k for k, v in (m.get("check_result") or {}).items() if v.get("exit") == 1]
    if caught:
        n_caught += 1
        how = ", ".join(caught) + ": " + ", ".join("`%s`" % c for c in conds(m)[:3])
    else:
        how = "**missed**" + (": " + m["miss_reason"] if m.get("miss_reason") else "")
    lines.append("| %s | %s | %s |" % (name, (m.get("needs") or "").replace("|", "/"), how))
lines.append("")
lines.append("%d of %d seeded changes are caught by the quick tier of the check of their own property." % (n_caught, n_all))
D = "/verif/DESIGN.md"
d = open(D).read()
a, b = "<!-- SEEDED-TABLE-BEGIN -->", "<!-- SEEDED-TABLE-END -->"
if a in d and b in d:
    d = d[:d.index(a) + len(a)] + "\n" + "\n".join(lines) + "\n" + d[d.index(b):]
    open(D, "w").write(d)
print(len(rows), "rows;", n_caught, "caught of", n_all)
