#!/usr/bin/env python3
"""Write seeded/README.md (table of seeded changes and which check caught them) from the meta.json files."""
import json, os
ROOT = "/verif/seeded"
notes = json.load(open("/verif/seed_notes.json"))
rows = []
for name in sorted(os.listdir(ROOT)):
    p = os.path.join(ROOT, name, "meta.json")
    if not os.path.exists(p):
        continue
    m = json.load(open(p))
    if name in notes and m.get("needs") != notes[name]:
        m["needs"] = notes[name]
        json.dump(m, open(p, "w"), indent=1)
    c = m.get("confirm", {})
    suite = c.get("suite", {})
    caught = [k for k, v in (m.get("check_result") or {}).items() if v.get("exit") == 1]
    rows.append((name, m.get("property"), m.get("needs", ""), c.get("demo_exit_clean"), c.get("demo_exit_patched"),
                 (f"{suite.get('passing_with_change')}/{suite.get('stable_pass')}" if suite else "pending"),
                 ", ".join(caught) if caught else ("MISSED" + (": " + m["miss_reason"] if m.get("miss_reason") else ""))))
with open(os.path.join(ROOT, "README.md"), "w") as f:
    f.write("# Seeded changes\n\nEach directory holds `patch.diff` (against /repo HEAD at `confirm.base_commit`), `demo.py` (exits 0 on the clean tree, non-zero with the patch), "
            "`meta.json` and, for the first of each pair, the author's `NOTES_agent.md`. Regenerate with `./seed_all.py [--suite] [names]` and `./seed_report.py`.\n\n")
    f.write("| change | property | what it needs to manifest | demo clean/patched | suite with change | caught by (quick tier) |\n|---|---|---|---|---|---|\n")
    for r in rows:
        f.write("| %s | %s | %s | %s / %s | %s | %s |\n" % r)
print(len(rows), "rows")
