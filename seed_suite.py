#!/usr/bin/env python3
"""Run the pinned suite with each seeded change applied (scratch worktree), record the result in meta.json.
usage: seed_suite.py [names...]   (skips changes whose meta.json already has a suite result)"""
import json, os, subprocess, sys, time, xml.etree.ElementTree as ET
ROOT = "/verif/seeded"
base = json.load(open("/root/.vp/BASELINE.json"))
want = set(base["stable_pass"])
names = sys.argv[1:] or sorted(os.listdir(ROOT))
for name in names:
    d = os.path.join(ROOT, name)
    mp = os.path.join(d, "meta.json")
    if not os.path.exists(os.path.join(d, "patch.diff")):
        continue
    meta = json.load(open(mp)) if os.path.exists(mp) else {"property": name.split("_")[0]}
    if meta.get("confirm", {}).get("suite"):
        continue
    wt = "/tmp/suitewt_" + name
    subprocess.run(["git", "-C", "/repo", "worktree", "remove", "--force", wt], capture_output=True)
    subprocess.run(["rm", "-rf", wt])
    subprocess.run(["git", "-C", "/repo", "worktree", "add", "-q", "--detach", wt, "HEAD"], check=True)
    subprocess.run(["cp", "/venv/lib/python3.12/site-packages/pydra/utils/_version.py", wt + "/pydra/utils/_version.py"])
    subprocess.run(["cp", "/repo/pydra/engine/tests/data_tests/test.nii.gz", wt + "/pydra/engine/tests/data_tests/"])
    r = subprocess.run(["git", "apply", "--3way", os.path.join(d, "patch.diff")], cwd=wt, capture_output=True, text=True)
    if r.returncode:
        meta.setdefault("confirm", {})["suite"] = {"error": "patch does not apply: " + r.stderr[-200:]}
    else:
        xml = "/tmp/suite_%s.xml" % name
        t0 = time.time()
        env = dict(os.environ, PYTHONPATH=wt)
        env.pop("NIPYPE_PYDRA_VERIF", None)
        subprocess.run(["nice", "-n", "10", "/venv/bin/python", "-m", "pytest", "-ra", "-q", "-p", "no:cacheprovider", "--timeout=900",
                        "--continue-on-collection-errors", "--junitxml=" + xml, "-n", "5"], cwd=wt, env=env, capture_output=True)
        got = {}
        try:
            for tc in ET.parse(xml).getroot().iter("testcase"):
                nm = tc.get("classname") + "::" + tc.get("name")
                bad = any(ch.tag in ("failure", "error") for ch in tc)
                got[nm] = "fail" if bad else ("skip" if any(ch.tag == "skipped" for ch in tc) else "pass")
            missing = sorted(n for n in want if got.get(n) != "pass")
            meta.setdefault("confirm", {})["suite"] = {"stable_pass": len(want), "passing_with_change": len(want) - len(missing),
                                                       "not_passing": missing[:10], "wall_s": round(time.time() - t0),
                                                       "cmd": "pytest -ra -q -p no:cacheprovider --timeout=900 --continue-on-collection-errors -n 5 (scratch worktree, patch applied)"}
        except Exception as e:
            meta.setdefault("confirm", {})["suite"] = {"error": repr(e)}
    json.dump(meta, open(mp, "w"), indent=1)
    print(name, meta["confirm"]["suite"], flush=True)
    subprocess.run(["git", "-C", "/repo", "worktree", "remove", "--force", wt], capture_output=True)
    subprocess.run(["rm", "-rf", wt])
