#!/usr/bin/env python3
"""Suite confirmation of seeded changes in batches.

Several changes that apply together are put into one scratch worktree and the pinned suite is run once.  If every stable
test passes with all of them applied, each change is recorded as confirmed (the other batch members are listed in its
meta.json); if some test fails, the batch is split in two and both halves are queued again (bisection down to single changes).

usage: seed_suite_batch.py [--size N] [names...]
"""
import json
import os
import subprocess
import sys
import time
import xml.etree.ElementTree as ET

ROOT = "/verif/seeded"
base = json.load(open("/root/.vp/BASELINE.json"))
want = set(base["stable_pass"])
size = 8
args = sys.argv[1:]
if "--size" in args:
    i = args.index("--size")
    size = int(args[i + 1])
    del args[i:i + 2]


def meta(name):
    p = os.path.join(ROOT, name, "meta.json")
    return json.load(open(p)) if os.path.exists(p) else {"property": name.split("_")[0]}


def save(name, m):
    json.dump(m, open(os.path.join(ROOT, name, "meta.json"), "w"), indent=1)


def run_batch(names, tag):
    wt = "/tmp/suitewt_batch"
    subprocess.run(["git", "-C", "/repo", "worktree", "remove", "--force", wt], capture_output=True)
    subprocess.run(["rm", "-rf", wt])
    subprocess.run(["git", "-C", "/repo", "worktree", "add", "-q", "--detach", wt, "HEAD"], check=True)
    subprocess.run(["cp", "/venv/lib/python3.12/site-packages/pydra/utils/_version.py", wt + "/pydra/utils/_version.py"])
    subprocess.run(["cp", "/repo/pydra/engine/tests/data_tests/test.nii.gz", wt + "/pydra/engine/tests/data_tests/"])
    applied, deferred = [], []
    for n in names:
        r = subprocess.run(["git", "apply", os.path.join(ROOT, n, "patch.diff")], cwd=wt, capture_output=True, text=True)
        (applied if r.returncode == 0 else deferred).append(n)
    xml = "/tmp/suite_batch_%s.xml" % tag
    t0 = time.time()
    env = dict(os.environ, PYTHONPATH=wt)
    env.pop("NIPYPE_PYDRA_VERIF", None)
    subprocess.run(["/venv/bin/python", "-m", "pytest", "-ra", "-q", "-p", "no:cacheprovider", "--timeout=900",
                    "--continue-on-collection-errors", "--junitxml=" + xml, "-n", "8"], cwd=wt, env=env, capture_output=True)
    got = {}
    try:
        for tc in ET.parse(xml).getroot().iter("testcase"):
            nm = tc.get("classname") + "::" + tc.get("name")
            bad = any(ch.tag in ("failure", "error") for ch in tc)
            got[nm] = "fail" if bad else ("skip" if any(ch.tag == "skipped" for ch in tc) else "pass")
    except Exception as e:
        print("no junit result:", e, flush=True)
    missing = sorted(n for n in want if got.get(n) != "pass")
    subprocess.run(["git", "-C", "/repo", "worktree", "remove", "--force", wt], capture_output=True)
    subprocess.run(["rm", "-rf", wt])
    return applied, deferred, missing, round(time.time() - t0)


names = args or sorted(n for n in os.listdir(ROOT) if os.path.exists(os.path.join(ROOT, n, "patch.diff")))
queue = [[n for n in names if not meta(n).get("confirm", {}).get("suite", {}).get("passing_with_change")]]
k = 0
while queue:
    group = queue.pop(0)
    if not group:
        continue
    batch, rest = group[:size], group[size:]
    if rest:
        queue.append(rest)
    k += 1
    applied, deferred, missing, wall = run_batch(batch, str(k))
    if deferred and applied:
        queue.append(deferred)          # conflicts with another member of the batch: try in a later batch
    elif deferred:
        for n in deferred:
            m = meta(n)
            m.setdefault("confirm", {})["suite"] = {"error": "patch does not apply to /repo HEAD"}
            save(n, m)
    if not applied:
        continue
    if not missing:
        for n in applied:
            m = meta(n)
            m.setdefault("confirm", {})["suite"] = {
                "stable_pass": len(want), "passing_with_change": len(want), "not_passing": [], "wall_s": wall,
                "cmd": "pytest -ra -q -p no:cacheprovider --timeout=900 --continue-on-collection-errors -n 8 in a scratch worktree of /repo HEAD",
                "applied_together_with": [x for x in applied if x != n]}
            save(n, m)
        print("batch", k, "OK", applied, "deferred", deferred, wall, "s", flush=True)
    elif len(applied) == 1:
        m = meta(applied[0])
        m.setdefault("confirm", {})["suite"] = {"stable_pass": len(want), "passing_with_change": len(want) - len(missing),
                                                "not_passing": missing[:10], "wall_s": wall}
        save(applied[0], m)
        print("batch", k, "FAIL", applied, missing[:5], flush=True)
    else:
        h = len(applied) // 2
        print("batch", k, "tests fail", missing[:5], "-> bisecting", applied, flush=True)
        queue.insert(0, applied[h:])
        queue.insert(0, applied[:h])
        pass  # later groups keep the full batch size
