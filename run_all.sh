#!/bin/sh
# run every claimed quick (or thorough) check once and summarise: ./run_all.sh [quick|thorough] [ids...]
TIER=${1:-quick}; shift 2>/dev/null
cd /verif
IDS=${@:-$(python3 -c "import json; print(' '.join(c['property_id'] for c in json.load(open('MANIFEST.json'))['checks']))")}
for id in $IDS; do
  s=$(date +%s)
  out=$(./check $id --tier $TIER 2>&1); rc=$?
  e=$(date +%s)
  echo "$id rc=$rc $((e-s))s $(echo "$out" | grep -E '^\[' | cut -c1-200)"
  [ $rc -ne 0 ] && echo "$out" | grep -E "VIOLATION|HARNESS|counterexample" | cut -c1-300 | head -6
done
