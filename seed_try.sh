#!/bin/sh
# seed_try.sh <seeded name> <check id> [extra ./check args]: run one check against a scratch worktree with the change applied
N=$1; C=$2; shift 2
WT=/tmp/trywt_$N
git -C /repo worktree remove --force $WT 2>/dev/null; rm -rf $WT
git -C /repo worktree add -q --detach $WT HEAD
cp /venv/lib/python3.12/site-packages/pydra/utils/_version.py $WT/pydra/utils/
(cd $WT && git apply /verif/seeded/$N/patch.diff) || echo "APPLY FAILED"
VF_REPO=$WT VF_BUILD=/tmp/trybuild_$N VF_EVIDENCE_DIR=/tmp/tryev_$N /verif/check $C "$@" 2>&1 | grep -E "^\[|counterexample:|HARNESS|KNOWN" | cut -c1-330 | head -6
git -C /repo worktree remove --force $WT; rm -rf /tmp/trybuild_$N /tmp/tryev_$N
