#!/usr/bin/env python3
"""For every directory under /verif/seeded: confirm the demo (clean passes / patched fails) in a scratch worktree, run the
property's check against the patched worktree (VF_REPO), optionally the full suite, and write meta.json.
usage: seed_all.py [--suite] [names...]"""
import json, os, re, subprocess, sys, time
ROOT = "/verif/seeded"
args = [a for a in sys.argv[1:] if not a.startswith("--")]
suite = "--suite" in sys.argv
names = args or sorted(os.listdir(ROOT))
for name in names:
    d = os.path.join(ROOT, name)
    if not os.path.exists(os.path.join(d, "patch.diff")):
        continue
    pid = name.split("_")[0]
    meta_p = os.path.join(d, "meta.json")
    meta = json.load(open(meta_p)) if os.path.exists(meta_p) else {"property": pid}
    t0 = time.time()
    out = subprocess.run(["/verif/seed_confirm.sh", d, "6"] + ([] if suite else ["nosuite"]), capture_output=True, text=True).stdout
    wt = "/tmp/mut/" + pid
    m = re.search(r"demo clean=(\d+) patched=(\d+) import=(\S+)", out)
    if not m:
        meta["confirm"] = {"error": out[-500:]}
    else:
        prev_suite = (meta.get("confirm") or {}).get("suite")
        meta["confirm"] = {"demo_exit_clean": int(m.group(1)), "demo_exit_patched": int(m.group(2)), "imports": m.group(3) == "ok",
                           "base_commit": subprocess.run(["git", "-C", "/repo", "rev-parse", "--short", "HEAD"], capture_output=True, text=True).stdout.strip()}
        sm = re.search(r"suite: stable_pass (\d+) passing with the change (\d+) not passing: (.*)", out)
        if prev_suite and not sm:
            meta["confirm"]["suite"] = prev_suite          # keep an earlier suite confirmation (seed_suite_batch.py)
        if sm:
            meta["confirm"]["suite"] = {"stable_pass": int(sm.group(1)), "passing_with_change": int(sm.group(2)), "not_passing": sm.group(3)}
        if os.path.isdir(wt):
            env = dict(os.environ, VF_REPO=wt, VF_BUILD="/tmp/vf_build_" + name, VF_EVIDENCE_DIR="/tmp/vf_ev_" + name)
            checks = meta.get("checks_to_run", [pid])
            res = {}
            for c in checks:
                r = subprocess.run(["/verif/check", c, "--tier", "quick"], capture_output=True, text=True, env=env)
                viol = [l for l in r.stdout.splitlines() if l.startswith("VIOLATION") or "counterexample:" in l]
                res[c] = {"exit": r.returncode, "violations": [v[:300] for v in viol[:4]]}
            meta["check_result"] = res
            meta["detected"] = any(v["exit"] == 1 for v in res.values())
    subprocess.run(["git", "-C", "/repo", "worktree", "remove", "--force", wt], capture_output=True)
    subprocess.run(["rm", "-rf", "/tmp/vf_build_" + name, "/tmp/vf_ev_" + name])
    meta["ran"] = "seed_confirm.sh (scratch worktree of /repo HEAD, demo clean/patched%s); VF_REPO=<worktree> ./check <id> --tier quick" % (", full suite -n 6" if suite else "")
    meta["wall_s"] = round(time.time() - t0)
    json.dump(meta, open(meta_p, "w"), indent=1)
    print(name, json.dumps({k: meta.get(k) for k in ("confirm", "detected")})[:300], flush=True)
